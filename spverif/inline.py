"""Normalisation N-inline: private helpers that did not exist when the rules were written are analysed as part of their callers.

The rules of this package are mostly intraprocedural: they look at the flow graph, the must-facts and the dependence closure of ONE
function (book(), available(), schedule(), ...).  A maintainer who extracts part of such a function into a new private helper, or
splits it in two, changes none of the behaviour -- but every rule that was anchored in the function now sees a call where it
expected the code.  Rather than teach each rule about each possible helper, the program model is normalised before any rule runs:

  * `baseline_funcs.txt` lists every function of /repo that existed when the rules were last reviewed (module path :: qualified
    name).  Those are analysed as units, as before; deleting or renaming one still makes its anchors vanish (exit 2).
  * a function that is NOT on that list, whose name is private (`_x`, not dunder), that is neither a generator nor async nor
    variadic nor recursive, and that is called by plain name / `self.` / `cls.` / its class name from functions of the same module,
    is inlined at each of those call sites (at most MAX_SITES of them): parameters are replaced by the argument expressions (bound
    to a temporary when the helper assigns them or the argument is not a plain name / attribute / constant), `return e` becomes an
    assignment to a result variable, early returns become if/else nesting, returns inside loops set a flag and break.
  * locals of the helper keep their names: code that was moved verbatim out of a function used those names there.

The transformation is purely syntactic and is applied to the parsed tree in memory; nothing is written to /repo and nothing is
executed.  Calls that cannot be hoisted safely (inside a `while` test, a comprehension, a lambda, the right-hand side of and/or, a
conditional expression) are left alone: the rule that needed the code then fails closed, as before.

After inlining, the statements of every changed function are renumbered in statement order (the original line is kept in
`_src_lineno` and used for reporting), because several rules order constructs by line.
"""
from __future__ import annotations

import ast
import copy
import os

MAX_SITES = 6
_HERE = os.path.dirname(os.path.abspath(__file__))
_BASELINE = None


def _baseline_small_calls() -> set:
    p = os.path.join(os.path.dirname(os.path.abspath(__file__)), "baseline_small_calls.txt")
    if not os.path.exists(p):
        return set()
    return {l.strip() for l in open(p) if l.strip() and not l.startswith("#")}


def baseline() -> set:
    global _BASELINE
    if _BASELINE is None:
        p = os.path.join(_HERE, "baseline_funcs.txt")
        _BASELINE = set(l.strip() for l in open(p)) if os.path.exists(p) else None
        if _BASELINE is None:
            _BASELINE = set()
    return _BASELINE


def _defs(tree):
    """[(qual, FunctionDef, class name|None)] for module-level functions and methods (one class level)."""
    out = []
    for st in tree.body:
        if isinstance(st, ast.FunctionDef):
            out.append((st.name, st, None))
        elif isinstance(st, ast.ClassDef):
            for s in st.body:
                if isinstance(s, ast.FunctionDef):
                    out.append((f"{st.name}.{s.name}", s, st.name))
    return out


def function_quals(tree) -> list:
    return [q for q, _f, _c in _defs(tree)]


def _is_generator(f):
    for n in ast.walk(f):
        if isinstance(n, (ast.Yield, ast.YieldFrom, ast.Await)):
            return True
    return False


def _simple_generator(f) -> bool:
    """a generator whose only yields are statements `yield e` and that has no return / await / yield from"""
    for n in ast.walk(f):
        if isinstance(n, (ast.YieldFrom, ast.Await, ast.Return)):
            return False
        if isinstance(n, ast.Yield):
            if n.value is None:
                return False
    for n in ast.walk(f):
        if isinstance(n, ast.Expr) and isinstance(n.value, ast.Yield):
            continue
    # every Yield must be the value of an Expr statement
    stmts_y = sum(1 for n in ast.walk(f) if isinstance(n, ast.Expr) and isinstance(n.value, ast.Yield))
    all_y = sum(1 for n in ast.walk(f) if isinstance(n, ast.Yield))
    return stmts_y == all_y and all_y > 0


def _calls_itself(f, name):
    for n in ast.walk(f):
        if isinstance(n, ast.Call) and ((isinstance(n.func, ast.Name) and n.func.id == name) or
                                        (isinstance(n.func, ast.Attribute) and n.func.attr == name)):
            return True
    return False


def _returns_of(st) -> list:
    """Return statements of st, not descending into nested functions"""
    out = []
    stack = [st]
    while stack:
        n = stack.pop()
        if isinstance(n, ast.Return):
            out.append(n)
        for c in ast.iter_child_nodes(n):
            if not isinstance(c, (ast.FunctionDef, ast.AsyncFunctionDef, ast.Lambda, ast.ClassDef)):
                stack.append(c)
    return out


def _contains_return(st) -> bool:
    todo = [st]
    while todo:
        n = todo.pop()
        if isinstance(n, ast.Return):
            return True
        if isinstance(n, (ast.FunctionDef, ast.AsyncFunctionDef, ast.Lambda, ast.ClassDef)) and n is not st:
            continue
        todo.extend(ast.iter_child_nodes(n))
    return False


class _Lower:
    """return lowering of a helper body"""

    def __init__(self, ret: str, done: str, unpack=None):
        self.ret, self.done = ret, done
        self.uses_done = False
        self.unpack = unpack          # names the caller unpacks the result into: `return a, b` becomes `x = a; y = b`

    def _assign(self, name, value):
        return ast.Assign(targets=[ast.Name(id=name, ctx=ast.Store())], value=value, lineno=0, col_offset=0)

    def lower(self, stmts, in_loop=False):
        out = []
        for i, st in enumerate(stmts):
            if isinstance(st, ast.Return):
                if self.unpack is not None:
                    for nm, el in zip(self.unpack, st.value.elts):
                        out.append(self._assign(nm, el))
                else:
                    out.append(self._assign(self.ret, st.value if st.value is not None else ast.Constant(value=None)))
                if in_loop:
                    self.uses_done = True
                    out.append(self._assign(self.done, ast.Constant(value=True)))
                    out.append(ast.Break())
                return out
            if not _contains_return(st):
                out.append(st)
                continue
            rest = stmts[i + 1:]
            if isinstance(st, ast.If):
                if in_loop:
                    st.body = self.lower(st.body, True) or [ast.Pass()]
                    st.orelse = self.lower(st.orelse, True)
                    out.append(st)
                    continue
                new = ast.If(test=st.test, body=self.lower(st.body + copy.deepcopy(rest)) or [ast.Pass()],
                             orelse=self.lower(st.orelse + rest), lineno=getattr(st, "lineno", 0), col_offset=0)
                out.append(new)
                return out
            if isinstance(st, (ast.For, ast.While)):
                st.body = self.lower(st.body, True) or [ast.Pass()]
                self.uses_done = True
                out.append(st)
                if in_loop:
                    out.append(ast.If(test=ast.Name(id=self.done, ctx=ast.Load()), body=[ast.Break()], orelse=[], lineno=0, col_offset=0))
                    continue
                tail = self.lower(rest)
                if tail:
                    out.append(ast.If(test=ast.UnaryOp(op=ast.Not(), operand=ast.Name(id=self.done, ctx=ast.Load())), body=tail, orelse=[],
                                      lineno=0, col_offset=0))
                return out
            if isinstance(st, ast.With):
                st.body = self.lower(st.body, in_loop) or [ast.Pass()]
                out.append(st)
                continue
            if isinstance(st, ast.Try):
                st.body = self.lower(st.body, in_loop) or [ast.Pass()]
                for h in st.handlers:
                    h.body = self.lower(h.body, in_loop) or [ast.Pass()]
                st.orelse = self.lower(st.orelse, in_loop)
                st.finalbody = self.lower(st.finalbody, in_loop)
                out.append(st)
                continue
            out.append(st)
        return out


class _Subst(ast.NodeTransformer):
    def __init__(self, env):
        self.env = env

    def visit_Name(self, n):
        if isinstance(n.ctx, ast.Load) and n.id in self.env:
            return copy.deepcopy(self.env[n.id])
        return n

    def visit_FunctionDef(self, n):
        return n

    def visit_Lambda(self, n):
        return n


def _simple(e) -> bool:
    if isinstance(e, (ast.Name, ast.Constant)):
        return True
    if isinstance(e, ast.Attribute):
        return _simple(e.value)
    return False


def _hoistable_calls(st):
    """Call nodes evaluated unconditionally, once, when the statement is executed (not inside its nested blocks)."""
    roots = []
    if isinstance(st, (ast.Expr, ast.Return)) and st.value is not None:
        roots = [st.value]
    elif isinstance(st, (ast.Assign, ast.AugAssign, ast.AnnAssign)) and getattr(st, "value", None) is not None:
        roots = [st.value]
    elif isinstance(st, ast.If):
        roots = [st.test]
    elif isinstance(st, ast.For):
        roots = [st.iter]
    elif isinstance(st, ast.Raise) and st.exc is not None:
        roots = [st.exc]              # `raise self._error(..)`: a helper that builds the exception
    out = []

    def walk(e, cond):
        if isinstance(e, (ast.Lambda, ast.ListComp, ast.SetComp, ast.DictComp, ast.GeneratorExp)):
            return
        if isinstance(e, ast.Call) and not cond:
            out.append(e)
        if isinstance(e, ast.BoolOp):
            walk(e.values[0], cond)
            for v in e.values[1:]:
                walk(v, True)
            return
        if isinstance(e, ast.IfExp):
            walk(e.test, cond)
            walk(e.body, True)
            walk(e.orelse, True)
            return
        for c in ast.iter_child_nodes(e):
            walk(c, cond)
    for r in roots:
        walk(r, False)
    return out


class Inliner:
    def __init__(self, tree, rel):
        self.tree, self.rel = tree, rel
        base = baseline()
        self.new = {}
        self.cls_of = {}
        self.mod_new, self.cls_new = {}, {}
        if not base:
            return
        for qual, f, cname in _defs(tree):
            name = f.name
            if f"{rel}::{qual}" in base or not name.startswith("_") or name.startswith("__"):
                continue
            a = f.args
            if a.vararg or a.kwarg or _calls_itself(f, name):
                continue
            if _is_generator(f) and not _simple_generator(f):
                continue
            if any(isinstance(d, ast.Name) and d.id in ("property", "classmethod") for d in f.decorator_list):
                continue
            static = any(isinstance(d, ast.Name) and d.id == "staticmethod" for d in f.decorator_list)
            if cname is None:
                self.mod_new[name] = (f, False)
            else:
                self.cls_new.setdefault(cname, {})[name] = (f, not static)
        self.counter = 0
        self.sites = {}
        # small straight-line methods of the baseline (a few assignments / calls, no control flow, no result): a NEW statement
        # `self.m(..)` in a method of the same class is read as m's body (`book()` updating the ledger through the existing
        # `markSlotPartiallyUsed`); the call sites the baseline tree already has are left alone (baseline_small_calls.txt)
        self.small = {}
        self.small_sites = _baseline_small_calls()
        for qual, f, cname in _defs(tree):
            if cname is None or f.decorator_list or f.name.startswith("__") or f.name in self.cls_new.get(cname, {}):
                continue
            a = f.args
            if a.vararg or a.kwarg:
                continue
            body = f.body[1:] if f.body and isinstance(f.body[0], ast.Expr) and isinstance(f.body[0].value, ast.Constant) else f.body
            if 1 <= len(body) <= 3 and all(isinstance(st, (ast.Assign, ast.AugAssign, ast.AnnAssign, ast.Expr)) for st in body) \
                    and not any(isinstance(x, (ast.Yield, ast.YieldFrom, ast.Await, ast.Lambda)) for st in body for x in ast.walk(st)):
                self.small.setdefault(cname, {})[f.name] = (f, True)

    def any_new(self):
        return bool(self.mod_new or self.cls_new or self.small)

    def resolve_small(self, st, cname, owner):
        """a new statement `self.m(..)` whose m is a small straight-line method of the same class"""
        if cname is None or not (isinstance(st, ast.Expr) and isinstance(st.value, ast.Call)):
            return None
        fx = st.value.func
        if isinstance(fx, ast.Attribute) and isinstance(fx.value, ast.Name) and fx.value.id == "self" and fx.attr in self.small.get(cname, {}):
            if f"{self.rel}::{cname}.{owner.name}->{fx.attr}" in self.small_sites or fx.attr == owner.name:
                return None
            return self.small[cname][fx.attr]
        return None

    def resolve(self, call, cname):
        fx = call.func
        if isinstance(fx, ast.Name) and fx.id in self.mod_new:
            return self.mod_new[fx.id]
        if isinstance(fx, ast.Attribute) and isinstance(fx.value, ast.Name) and cname is not None:
            meths = self.cls_new.get(cname, {})
            if fx.value.id in ("self", "cls", cname) and fx.attr in meths:
                return meths[fx.attr]
        return None

    def expand(self, call, helper, bound, generator=None, tail=False, cont=None, owner=None, stmt=None):
        """-> (statements, result expression | None)"""
        self.counter += 1
        tag = f"{helper.name}_{self.counter}"
        a = helper.args
        params = [x.arg for x in a.posonlyargs + a.args]
        if bound and params:
            params = params[1:]
        defaults = list(a.defaults)
        dmap = {}
        allp = [x.arg for x in a.posonlyargs + a.args]
        for p, d in zip(allp[len(allp) - len(defaults):], defaults):
            dmap[p] = d
        for k, d in zip(a.kwonlyargs, a.kw_defaults):
            if d is not None:
                dmap[k.arg] = d
        params += [k.arg for k in a.kwonlyargs]
        args = {}
        for p, v in zip(params, call.args):
            args[p] = v
        for kw in call.keywords:
            if kw.arg is None:
                return None
            args[kw.arg] = kw.value
        for p in params:
            if p not in args:
                if p in dmap:
                    args[p] = dmap[p]
                else:
                    return None
        if any(isinstance(v, ast.Starred) for v in call.args):
            return None
        body = copy.deepcopy(helper.body)
        if body and isinstance(body[0], ast.Expr) and isinstance(body[0].value, ast.Constant) and isinstance(body[0].value.value, str):
            body = body[1:]
        stored = {n.id for st in body for n in ast.walk(st) if isinstance(n, ast.Name) and isinstance(n.ctx, ast.Store)}
        # a local of the helper that the caller also uses as a name of its own gets a name of its own (alpha-renaming): the caller's
        # variable is not the helper's
        if owner is not None:
            theirs = {n.id for n in ast.walk(owner) if isinstance(n, ast.Name)} | {a_.arg for a_ in ast.walk(owner) if isinstance(a_, ast.arg)}
            # names that reach the helper as arguments are the caller's on purpose
            clash = {v for v in stored if v in theirs and v not in params}
            # ... needed only where the caller's value of that name is still wanted after the call: bound before the call and read
            # after it, or the call sits in a loop of the caller that reads the name
            line = getattr(call, "lineno", 0)
            loops_ = [l_ for l_ in ast.walk(owner) if isinstance(l_, (ast.For, ast.While)) and any(c_ is call for c_ in ast.walk(l_))]

            def live_across(v):
                before = any(isinstance(n, ast.Name) and n.id == v and isinstance(n.ctx, ast.Store) and getattr(n, "lineno", 0) < line for n in ast.walk(owner)) \
                    or any(a_.arg == v for a_ in ast.walk(owner) if isinstance(a_, ast.arg))
                after = any(isinstance(n, ast.Name) and n.id == v and isinstance(n.ctx, ast.Load) and getattr(n, "lineno", 0) > line for n in ast.walk(owner))
                in_loop = any(isinstance(n, ast.Name) and n.id == v and isinstance(n.ctx, ast.Load) and not any(n is c_ for c_ in ast.walk(call))
                              for l_ in loops_ for n in ast.walk(l_))
                return (before and after) or in_loop
            # a name the calling statement itself binds (`a, b = helper(..)`) is overwritten by it: the helper may use it freely
            own_targets = set()
            if isinstance(stmt, (ast.Assign, ast.AnnAssign)):
                for t_ in (stmt.targets if isinstance(stmt, ast.Assign) else [stmt.target]):
                    own_targets |= {x_.id for x_ in ast.walk(t_) if isinstance(x_, ast.Name) and isinstance(x_.ctx, ast.Store)}
                if any(isinstance(x_, ast.Name) and x_.id in own_targets and isinstance(x_.ctx, ast.Load) for x_ in ast.walk(stmt)
                       if not any(x_ is c_ for c_ in ast.walk(call))):
                    own_targets = set()        # ... unless the statement also reads it
            clash = {v for v in clash if v not in own_targets and live_across(v)}
            if clash and not tail:
                ren = {v: f"{v}__{helper.name.lstrip('_')}" for v in clash}

                class _Ren(ast.NodeTransformer):
                    def visit_Name(self, n):
                        if n.id in ren:
                            n.id = ren[n.id]
                        return n

                    def visit_FunctionDef(self, n):
                        return n

                    def visit_Lambda(self, n):
                        return n
                body = [_Ren().visit(st) for st in body]
                stored = {ren.get(v, v) for v in stored}
        pre, env = [], {}
        for p in params:
            v = args[p]
            if _simple(v) and p not in stored:
                if not (isinstance(v, ast.Name) and v.id == p):
                    env[p] = v
            else:
                pre.append(ast.Assign(targets=[ast.Name(id=p, ctx=ast.Store())], value=copy.deepcopy(v), lineno=0, col_offset=0))
        if env:
            sub = _Subst(env)
            body = [sub.visit(st) for st in body]
        if generator is not None:
            var, loop_body = generator

            class _Y(ast.NodeTransformer):
                def visit_Expr(self, n):
                    if isinstance(n.value, ast.Yield):
                        return [ast.Assign(targets=[ast.Name(id=var, ctx=ast.Store())], value=n.value.value, lineno=0, col_offset=0)] + copy.deepcopy(loop_body)
                    return n

                def visit_FunctionDef(self, n):
                    return n
            out = []
            for st_ in body:
                r = _Y().visit(st_)
                out += r if isinstance(r, list) else [r]
            return pre + out, None
        if cont is not None:
            # `if [not] helper(..): BODY` with BODY leaving the function: the helper's truthy (falsy) constant returns become BODY,
            # its final other return becomes "go on after the if"
            then_body, neg = cont
            if not body:
                return None
            if not isinstance(body[-1], ast.Return):
                body = body + [ast.Return(value=ast.Constant(value=None), lineno=0, col_offset=0)]
            rets = [n for st_ in body for n in _returns_of(st_)]
            if not all(n.value is None or isinstance(n.value, ast.Constant) for n in rets):
                return None

            def takes(n):
                return bool(n.value.value if n.value is not None else None) != neg
            if any((not takes(n)) and n is not body[-1] for n in rets):
                return None

            class _R(ast.NodeTransformer):
                def visit_Return(self, n):
                    return copy.deepcopy(then_body) if takes(n) else []

                def visit_FunctionDef(self, n):
                    return n

                def visit_Lambda(self, n):
                    return n
            out = []
            for st_ in body:
                r = _R().visit(st_)
                out += r if isinstance(r, list) else ([r] if r is not None else [])
            # an emptied block must stay a block
            for n in [x for st_ in out for x in ast.walk(st_)]:
                for fld in ("body", "orelse"):
                    v = getattr(n, fld, None)
                    if fld == "body" and isinstance(v, list) and not v and isinstance(n, (ast.If, ast.For, ast.While, ast.With, ast.Try)):
                        n.body = [ast.Pass(lineno=0, col_offset=0)]
            return pre + out, None
        if tail:
            # `return helper(..)`: the helper's own returns are the caller's returns; nothing to lower
            if not body or not isinstance(body[-1], (ast.Return, ast.Raise)):
                body = body + [ast.Return(value=ast.Constant(value=None), lineno=0, col_offset=0)]
            return pre + body, None
        ret, done = f"__ret_{tag}", f"__done_{tag}"
        has_value = any(isinstance(n, ast.Return) and n.value is not None for st in body for n in ast.walk(st))
        if not any(_contains_return(st) for st in body):
            return pre + body, None
        # `a, b, c = helper(..)` where every return of the helper is a tuple of that many elements which do not read a, b, c: the
        # elements are assigned to a, b, c where the helper returned them (keeps per-element provenance)
        unpack = None
        if isinstance(stmt, ast.Assign) and len(stmt.targets) == 1 and isinstance(stmt.targets[0], ast.Tuple) and stmt.value is call \
                and all(isinstance(t_, ast.Name) for t_ in stmt.targets[0].elts):
            names_ = [t_.id for t_ in stmt.targets[0].elts]
            rets_ = [r_ for st_ in body for r_ in _returns_of(st_)]
            if rets_ and len(set(names_)) == len(names_) and all(
                    isinstance(r_.value, ast.Tuple) and len(r_.value.elts) == len(names_) and not any(
                        isinstance(x_, ast.Name) and x_.id in names_ for el_ in r_.value.elts[1:] for x_ in ast.walk(el_))
                    and not any(isinstance(el_, ast.Starred) for el_ in r_.value.elts) for r_ in rets_) \
                    and not (set(names_) & stored) and isinstance(body[-1], ast.Return):
                unpack = names_
        # single trailing `return e`
        if isinstance(body[-1], ast.Return) and not any(_contains_return(st) for st in body[:-1]) and unpack is None:
            return pre + body[:-1], (body[-1].value if body[-1].value is not None else ast.Constant(value=None))
        if unpack is not None and isinstance(body[-1], ast.Return) and not any(_contains_return(st_) for st_ in body[:-1]):
            return pre + body[:-1] + [ast.Assign(targets=[ast.Name(id=n_, ctx=ast.Store())], value=e_, lineno=0, col_offset=0)
                                       for n_, e_ in zip(unpack, body[-1].value.elts)], "DROP"
        lw = _Lower(ret, done, unpack)
        lowered = lw.lower(body)
        if unpack is not None:
            init_ = [ast.Assign(targets=[ast.Name(id=done, ctx=ast.Store())], value=ast.Constant(value=False), lineno=0, col_offset=0)] if lw.uses_done else []
            return pre + init_ + lowered, "DROP"
        init = [ast.Assign(targets=[ast.Name(id=ret, ctx=ast.Store())], value=ast.Constant(value=None), lineno=0, col_offset=0)]
        if lw.uses_done:
            init.append(ast.Assign(targets=[ast.Name(id=done, ctx=ast.Store())], value=ast.Constant(value=False), lineno=0, col_offset=0))
        return pre + init + lowered, (ast.Name(id=ret, ctx=ast.Load()) if has_value else ast.Constant(value=None))

    def inline_block(self, stmts, cname, owner):
        changed = False
        i = 0
        while i < len(stmts):
            st = stmts[i]
            for fld in ("body", "orelse", "finalbody"):
                sub = getattr(st, fld, None)
                if isinstance(sub, list) and sub and isinstance(sub[0], ast.stmt) and not isinstance(st, (ast.FunctionDef, ast.AsyncFunctionDef, ast.ClassDef)):
                    changed |= self.inline_block(sub, cname, owner)
            for h in getattr(st, "handlers", []) or []:
                changed |= self.inline_block(h.body, cname, owner)
            done_here = False
            # `if A and B and <helper call>:` (no else): the call is evaluated only when A and B hold -- rewritten as
            # `if A and B: <inlined>; if <result>: body`, which evaluates the same things in the same cases
            if isinstance(st, ast.If) and not st.orelse and isinstance(st.test, ast.BoolOp) and isinstance(st.test.op, ast.And) and len(st.test.values) >= 2:
                last = st.test.values[-1]
                inner = last.operand if isinstance(last, ast.UnaryOp) and isinstance(last.op, ast.Not) else last
                if isinstance(inner, ast.Call) and self.resolve(inner, cname) is not None and self.resolve(inner, cname)[0] is not owner:
                    head_vals = st.test.values[:-1]
                    head = head_vals[0] if len(head_vals) == 1 else ast.BoolOp(op=ast.And(), values=head_vals)
                    inner_if = ast.If(test=last, body=st.body, orelse=[], lineno=st.lineno, col_offset=0)
                    st.test = head
                    st.body = [inner_if]
                    changed = True
                    continue          # re-scan this statement: its body now holds a hoistable call
            # `for x in <generator helper>(...): BODY` -- the helper's body with every `yield e` replaced by `x = e; BODY`
            if isinstance(st, ast.For) and not st.orelse and isinstance(st.target, ast.Name) and isinstance(st.iter, ast.Call):
                r_ = self.resolve(st.iter, cname)
                if r_ is not None and r_[0] is not owner and _is_generator(r_[0]) \
                        and not any(isinstance(x, (ast.Break, ast.Continue)) for b_ in st.body for x in ast.walk(b_)) \
                        and self.sites.get(id(r_[0]), 0) < MAX_SITES:
                    ex = self.expand(st.iter, r_[0], r_[1], generator=(st.target.id, st.body), owner=owner)
                    if ex is not None:
                        self.sites[id(r_[0])] = self.sites.get(id(r_[0]), 0) + 1
                        stmts[i:i + 1] = ex[0] or [ast.Pass(lineno=st.lineno, col_offset=0)]
                        changed = True
                        continue
            # `return [not] any/all(<E with a helper call> for x in S [if C])`: the search loop it abbreviates, so that the helper can be
            # folded into the loop body
            if isinstance(st, ast.Return) and st.value is not None:
                v_, neg_ = st.value, False
                if isinstance(v_, ast.UnaryOp) and isinstance(v_.op, ast.Not):
                    v_, neg_ = v_.operand, True
                if isinstance(v_, ast.Call) and isinstance(v_.func, ast.Name) and v_.func.id in ("any", "all") and len(v_.args) == 1 \
                        and not v_.keywords and isinstance(v_.args[0], (ast.GeneratorExp, ast.ListComp)) and len(v_.args[0].generators) == 1 \
                        and not v_.args[0].generators[0].is_async \
                        and any(isinstance(c_, ast.Call) and self.resolve(c_, cname) is not None and self.resolve(c_, cname)[0] is not owner
                                for c_ in ast.walk(v_.args[0])):
                    g_ = v_.args[0].generators[0]
                    is_any = v_.func.id == "any"
                    test_ = v_.args[0].elt if is_any else ast.UnaryOp(op=ast.Not(), operand=v_.args[0].elt)
                    hit_val = (is_any != neg_)           # any: True on a hit (False under `not`); all: False on a counter-example
                    hit = ast.If(test=test_, body=[ast.Return(value=ast.Constant(value=hit_val), lineno=st.lineno, col_offset=0)], orelse=[],
                                 lineno=st.lineno, col_offset=0)
                    body_ = [hit]
                    if g_.ifs:
                        cond_ = g_.ifs[0] if len(g_.ifs) == 1 else ast.BoolOp(op=ast.And(), values=list(g_.ifs))
                        body_ = [ast.If(test=cond_, body=[hit], orelse=[], lineno=st.lineno, col_offset=0)]
                    loop_ = ast.For(target=g_.target, iter=g_.iter, body=body_, orelse=[], lineno=st.lineno, col_offset=st.col_offset)
                    for x_ in ast.walk(loop_.target):
                        if isinstance(x_, ast.Name):
                            x_.ctx = ast.Store()
                    tail_ = ast.Return(value=ast.Constant(value=not hit_val), lineno=st.lineno, col_offset=st.col_offset)
                    stmts[i:i + 1] = [loop_, tail_]
                    ast.fix_missing_locations(loop_)
                    changed = True
                    continue
            # `if bool(X):` is `if X:`
            if isinstance(st, (ast.If, ast.While)) and isinstance(st.test, ast.Call) and isinstance(st.test.func, ast.Name) \
                    and st.test.func.id == "bool" and len(st.test.args) == 1 and not st.test.keywords and getattr(st, "_debooled", None) is None:
                st.test = st.test.args[0]
                st._debooled = True
                changed = True
                continue
            # `if A or <helper call> [or ..]: ...; return/raise` (no else): one test after the other, each with the same leaving body
            if isinstance(st, ast.If) and not st.orelse and st.body and isinstance(st.body[-1], (ast.Return, ast.Raise)) \
                    and isinstance(st.test, ast.BoolOp) and isinstance(st.test.op, ast.Or):
                def _is_helper(v_):
                    c2 = v_.operand if isinstance(v_, ast.UnaryOp) and isinstance(v_.op, ast.Not) else v_
                    r2 = self.resolve(c2, cname) if isinstance(c2, ast.Call) else None
                    return r2 is not None and r2[0] is not owner
                if any(_is_helper(v_) for v_ in st.test.values):
                    stmts[i:i + 1] = [ast.If(test=v_, body=copy.deepcopy(st.body), orelse=[], lineno=st.lineno, col_offset=st.col_offset)
                                      for v_ in st.test.values]
                    changed = True
                    continue
            # `if [not] <helper call>: ...; return/raise` (no else)
            if isinstance(st, ast.If) and not st.orelse and st.body and isinstance(st.body[-1], (ast.Return, ast.Raise)):
                t_ = st.test
                neg_ = isinstance(t_, ast.UnaryOp) and isinstance(t_.op, ast.Not)
                c_ = t_.operand if neg_ else t_
                r_ = self.resolve(c_, cname) if isinstance(c_, ast.Call) else None
                if r_ is not None and r_[0] is not owner and not _is_generator(r_[0]) and self.sites.get(id(r_[0]), 0) < MAX_SITES \
                        and not any(isinstance(x, (ast.Break, ast.Continue)) for b_ in st.body for x in ast.walk(b_)):
                    ex = self.expand(c_, r_[0], r_[1], cont=(st.body, neg_), owner=owner)
                    if ex is not None:
                        self.sites[id(r_[0])] = self.sites.get(id(r_[0]), 0) + 1
                        for n in ex[0]:
                            for x in ast.walk(n):
                                x._inlined_from = r_[0].name
                        stmts[i:i + 1] = ex[0] or [ast.Pass(lineno=st.lineno, col_offset=0)]
                        changed = True
                        continue
            rs_ = self.resolve_small(st, cname, owner)
            if rs_ is not None and self.sites.get(("small", id(rs_[0])), 0) < MAX_SITES:
                ex = self.expand(st.value, rs_[0], rs_[1], owner=owner, stmt=st)
                if ex is not None and ex[1] is None:
                    self.sites[("small", id(rs_[0]))] = self.sites.get(("small", id(rs_[0])), 0) + 1
                    stmts[i:i + 1] = ex[0] or [ast.Pass(lineno=st.lineno, col_offset=0)]
                    changed = True
                    continue
            for call in _hoistable_calls(st):
                r = self.resolve(call, cname)
                if r is None:
                    continue
                helper, bound = r
                if helper is owner or _is_generator(helper):
                    continue
                key = id(helper)
                if self.sites.get(key, 0) >= MAX_SITES:
                    continue
                is_tail = isinstance(st, ast.Return) and st.value is call
                ex = self.expand(call, helper, bound, tail=is_tail, owner=owner, stmt=st)
                if ex is None:
                    continue
                new_stmts, result = ex
                self.sites[key] = self.sites.get(key, 0) + 1
                for n in new_stmts:
                    for x in ast.walk(n):
                        x._inlined_from = helper.name
                if is_tail or (isinstance(st, ast.Expr) and st.value is call) or result == "DROP":
                    stmts[i:i + 1] = new_stmts or [ast.Pass(lineno=st.lineno, col_offset=0)]
                else:
                    _replace_expr(st, call, result if result is not None else ast.Constant(value=None))
                    # `x = helper()` whose helper ends in `return x`: the assignment has become `x = x`
                    if isinstance(st, (ast.Assign, ast.AnnAssign)) and isinstance(getattr(st, "value", None), ast.Name):
                        tg = st.targets if isinstance(st, ast.Assign) else [st.target]
                        if len(tg) == 1 and isinstance(tg[0], ast.Name) and tg[0].id == st.value.id:
                            stmts[i:i + 1] = []
                    stmts[i:i] = new_stmts
                changed = True
                done_here = True
                break            # re-scan from this index: the inlined statements may contain further helper calls
            if done_here:
                continue
            i += 1
        return changed


def _replace_expr(st, old, new):
    for node in ast.walk(st):
        for f, v in ast.iter_fields(node):
            if v is old:
                setattr(node, f, new)
                return
            if isinstance(v, list):
                for k, x in enumerate(v):
                    if x is old:
                        v[k] = new
                        return


def _renumber(fn):
    """statement-order line numbers for a function whose body received statements from elsewhere"""
    counter = [fn.lineno]

    def expr_nodes(st):
        # nodes of the statement itself, not of nested statements
        todo = [st]
        while todo:
            n = todo.pop()
            yield n
            for f, v in ast.iter_fields(n):
                if f in ("body", "orelse", "finalbody", "handlers") and isinstance(v, list) and v and isinstance(v[0], (ast.stmt, ast.ExceptHandler)):
                    continue
                if isinstance(v, ast.AST):
                    todo.append(v)
                elif isinstance(v, list):
                    todo.extend(x for x in v if isinstance(x, ast.AST))

    def visit_block(stmts):
        for st in stmts:
            counter[0] += 1
            for n in expr_nodes(st):
                if hasattr(n, "lineno") or isinstance(n, (ast.stmt, ast.expr)):
                    if not hasattr(n, "_src_lineno"):
                        n._src_lineno = getattr(n, "lineno", None) or None
                    n.lineno = counter[0]
                    n.end_lineno = counter[0]
                    if not hasattr(n, "col_offset"):
                        n.col_offset = 0
                    if not hasattr(n, "end_col_offset"):
                        n.end_col_offset = 0
            if isinstance(st, (ast.FunctionDef, ast.AsyncFunctionDef, ast.ClassDef)):
                visit_block(st.body)
                st.end_lineno = counter[0]
                continue
            for fld in ("body", "orelse", "finalbody"):
                sub = getattr(st, fld, None)
                if isinstance(sub, list) and sub and isinstance(sub[0], ast.stmt):
                    visit_block(sub)
            for h in getattr(st, "handlers", []) or []:
                counter[0] += 1
                h._src_lineno = getattr(h, "lineno", None)
                h.lineno = h.end_lineno = counter[0]
                if h.type is not None:
                    for n in ast.walk(h.type):
                        n._src_lineno = getattr(n, "lineno", None)
                        n.lineno = n.end_lineno = counter[0]
                visit_block(h.body)
            st.end_lineno = counter[0]
    visit_block(fn.body)
    fn.end_lineno = counter[0]


def normalise(tree, rel: str) -> int:
    """Inline new private helpers into their callers (in place). Returns the number of call sites expanded."""
    inl = Inliner(tree, rel)
    if not inl.any_new():
        return 0
    total = 0
    for _round in range(3):
        changed_any = False
        for qual, f, cname in _defs(tree):
            before = sum(inl.sites.values()) if inl.sites else 0
            if inl.inline_block(f.body, cname, f):
                changed_any = True
                f._inlined = True
            total += (sum(inl.sites.values()) if inl.sites else 0) - before
        if not changed_any:
            break
    # a helper all of whose call sites were expanded is dead code in the normalised program: it is dropped, so that who-may-call
    # censuses do not count the copy of the code that is left in it
    helpers = [hf for (hf, _b) in inl.mod_new.values()] + [hf for d in inl.cls_new.values() for (hf, _b) in d.values()]
    for hf in helpers:
        if not inl.sites.get(id(hf)):
            continue
        still = False
        for n in ast.walk(tree):
            if isinstance(n, ast.Call) and ((isinstance(n.func, ast.Name) and n.func.id == hf.name) or
                                            (isinstance(n.func, ast.Attribute) and n.func.attr == hf.name)):
                if not any(n is x for x in ast.walk(hf)):
                    still = True
                    break
            if isinstance(n, ast.Attribute) and n.attr == hf.name and not isinstance(getattr(n, "ctx", None), ast.Store):
                pass
        if still:
            continue
        for owner in [tree] + [c for c in tree.body if isinstance(c, ast.ClassDef)]:
            if hf in owner.body:
                owner.body.remove(hf)
                if not owner.body:
                    owner.body.append(ast.Pass(lineno=getattr(owner, "lineno", 1), col_offset=0))
    for qual, f, cname in _defs(tree):
        if getattr(f, "_inlined", False):
            _fold_literals(f)
            ast.fix_missing_locations(f)
            _renumber(f)
    return total


def _fold_literals(f):
    """After parameters were replaced by literal arguments: f"to_{'json'}" is "to_json", a local bound once to a string literal is that
    literal, and getattr(o, "name") is o.name -- so that a helper parametrised by a name reads like the code it was extracted from."""
    class _F(ast.NodeTransformer):
        def visit_JoinedStr(self, n):
            self.generic_visit(n)
            parts = []
            for v in n.values:
                if isinstance(v, ast.Constant) and isinstance(v.value, str):
                    parts.append(v.value)
                elif isinstance(v, ast.FormattedValue) and v.conversion == -1 and v.format_spec is None \
                        and isinstance(v.value, ast.Constant) and isinstance(v.value.value, str):
                    parts.append(v.value.value)
                else:
                    return n
            return ast.copy_location(ast.Constant(value="".join(parts)), n)
    _F().visit(f)
    # string-literal locals bound exactly once
    binds, vals = {}, {}
    for n in ast.walk(f):
        if isinstance(n, ast.Name) and isinstance(n.ctx, (ast.Store, ast.Del)):
            binds[n.id] = binds.get(n.id, 0) + 1
    for n in ast.walk(f):
        if isinstance(n, ast.Assign) and len(n.targets) == 1 and isinstance(n.targets[0], ast.Name) and binds.get(n.targets[0].id) == 1 \
                and isinstance(n.value, ast.Constant) and isinstance(n.value.value, str) and n.targets[0].id.startswith(("method", "attr", "name", "_")) is not None:
            vals[n.targets[0].id] = n.value.value
    params = {a.arg for a in f.args.posonlyargs + f.args.args + f.args.kwonlyargs}

    class _P(ast.NodeTransformer):
        def visit_Name(self, n):
            if isinstance(n.ctx, ast.Load) and n.id in vals and n.id not in params:
                return ast.copy_location(ast.Constant(value=vals[n.id]), n)
            return n

        def visit_FunctionDef(self, n):
            return n if n is not f else self.generic_visit(n)

        def visit_Lambda(self, n):
            return n
    if vals:
        _P().visit(f)
        _F().visit(f)

    class _G(ast.NodeTransformer):
        def visit_Call(self, n):
            self.generic_visit(n)
            if isinstance(n.func, ast.Name) and n.func.id == "getattr" and len(n.args) == 2 and not n.keywords \
                    and isinstance(n.args[1], ast.Constant) and isinstance(n.args[1].value, str) and n.args[1].value.isidentifier():
                return ast.copy_location(ast.Attribute(value=n.args[0], attr=n.args[1].value, ctx=ast.Load()), n)
            return n
    _G().visit(f)


# ---------------------------------------------------------------------------------------------------------------- N-alias
class Frozen:
    """Which fields of `self` keep their object for the whole life of the instance.  A field f of class C is frozen when, in C's
    family (its ancestors and descendants, by class name), every `self.f = ..` sits in `__init__`, and no module that defines a
    class of the family stores `.f` on any other receiver or uses setattr / delattr outside a constructor.  (Assumption, stated in
    DESIGN: a field of an object is re-bound only by its own class family or by code in the modules that define the family.)"""

    def __init__(self, trees_by_rel: dict):
        self.bases, self.where = {}, {}
        self.self_stores, self.other_stores, self.dynamic = {}, {}, set()     # class -> attrs ; rel -> attrs ; rels with dynamic setattr
        self.init_stores = {}
        self.store_sites = {}                  # (class, attr) -> names of the non-constructor methods that store self.attr
        for rel, t in trees_by_rel.items():
            for c in ast.walk(t):
                if isinstance(c, ast.ClassDef):
                    self.bases.setdefault(c.name, set()).update(
                        b.id if isinstance(b, ast.Name) else (b.attr if isinstance(b, ast.Attribute) else "?") for b in c.bases)
                    self.where.setdefault(c.name, set()).add(rel)
                    for m in c.body:
                        if isinstance(m, (ast.FunctionDef, ast.AsyncFunctionDef)):
                            self._scan(m, c.name, rel, m.name == "__init__")
            for st in t.body:
                if not isinstance(st, ast.ClassDef):
                    self._scan(st, None, rel, False)

    def _scan(self, node, cname, rel, in_init):
        for n in ast.walk(node):
            if isinstance(n, ast.Attribute) and isinstance(n.ctx, (ast.Store, ast.Del)):
                on_self = isinstance(n.value, ast.Name) and n.value.id == "self" and cname is not None
                if on_self and in_init:
                    self.init_stores.setdefault(cname, set()).add(n.attr)
                elif on_self:
                    self.self_stores.setdefault(cname, set()).add(n.attr)
                    self.store_sites.setdefault((cname, n.attr), set()).add(getattr(node, "name", "?"))
                else:
                    self.other_stores.setdefault(rel, set()).add(n.attr)
            if isinstance(n, ast.Call) and isinstance(n.func, ast.Name) and n.func.id in ("setattr", "delattr") and len(n.args) >= 2:
                if in_init and isinstance(n.args[0], ast.Name) and n.args[0].id == "self":
                    continue
                a = n.args[1]
                if isinstance(a, ast.Constant) and isinstance(a.value, str):
                    self.other_stores.setdefault(rel, set()).add(a.value)
                else:
                    self.dynamic.add(rel)

    def family(self, cname) -> set:
        fam, todo = set(), [cname]
        while todo:
            c = todo.pop()
            if c in fam:
                continue
            fam.add(c)
            todo += [b for b in self.bases.get(c, ()) if b in self.bases]
            todo += [d for d, bs in self.bases.items() if c in bs]
        return fam

    def only_stored_by(self, cname, attr, fname) -> bool:
        """self.<attr> is (re)bound, outside constructors, by the method `fname` alone -- in the whole class family and its modules"""
        fam = self.family(cname)
        rels = set().union(*(self.where.get(c, set()) for c in fam)) if fam else set()
        if rels & self.dynamic or any(attr in self.other_stores.get(r, set()) for r in rels):
            return False
        sites = set().union(*(self.store_sites.get((c, attr), set()) for c in fam))
        return sites <= {fname}

    def fields(self, cname) -> set:
        fam = self.family(cname)
        rels = set().union(*(self.where.get(c, set()) for c in fam)) if fam else set()
        if rels & self.dynamic:
            return set()
        init = set().union(*(self.init_stores.get(c, set()) for c in fam))
        bad = set().union(*(self.self_stores.get(c, set()) for c in fam)) | set().union(*(self.other_stores.get(r, set()) for r in rels))
        return init - bad


def _self_chain(e):
    """['a', 'b'] for self.a.b; None for anything else"""
    names = []
    while isinstance(e, ast.Attribute):
        names.append(e.attr)
        e = e.value
    if isinstance(e, ast.Name) and e.id == "self" and names:
        return list(reversed(names))
    return None


def propagate_aliases(tree, frozen_of) -> int:
    """`v = self.f[.g]` with f, g frozen fields and v bound exactly once in the function: every read of v is the read of the field
    (in place).  Returns the number of aliases removed."""
    n_done = 0
    for qual, f, cname in _defs(tree):
        if cname is None:
            continue
        n_done += _fresh_field_alias(f, cname, frozen_of)
        frozen = frozen_of.fields(cname)
        if not frozen:
            continue
        a = f.args
        params = {x.arg for x in a.posonlyargs + a.args + a.kwonlyargs} | ({a.vararg.arg} if a.vararg else set()) | ({a.kwarg.arg} if a.kwarg else set())
        binds = {}
        for n in ast.walk(f):
            if isinstance(n, ast.Name) and isinstance(n.ctx, (ast.Store, ast.Del)):
                binds[n.id] = binds.get(n.id, 0) + 1
            elif isinstance(n, (ast.FunctionDef, ast.AsyncFunctionDef, ast.Lambda)) and n is not f:
                aa = n.args
                for x in aa.posonlyargs + aa.args + aa.kwonlyargs:
                    binds[x.arg] = binds.get(x.arg, 0) + 2
            elif isinstance(n, (ast.Global, ast.Nonlocal)):
                for nm in n.names:
                    binds[nm] = binds.get(nm, 0) + 2
            elif isinstance(n, ast.ExceptHandler) and n.name:
                binds[n.name] = binds.get(n.name, 0) + 2
            elif isinstance(n, ast.alias):
                binds[(n.asname or n.name).split(".")[0]] = 2
        cands = {}

        def scan(stmts):
            for st in stmts:
                tg = val = None
                if isinstance(st, ast.Assign) and len(st.targets) == 1:
                    tg, val = st.targets[0], st.value
                elif isinstance(st, ast.AnnAssign) and st.value is not None:
                    tg, val = st.target, st.value
                if isinstance(tg, ast.Name) and binds.get(tg.id) == 1 and tg.id not in params:
                    ch = _self_chain(val)
                    if ch is not None and all(c in frozen for c in ch):
                        cands[tg.id] = (st, val)
        scan(f.body)                 # top level of the function only: the definition precedes (dominates) every later use
        if not cands:
            continue
        # every use must come after the definition
        ok = {}
        for v, (st, val) in cands.items():
            uses = [n for n in ast.walk(f) if isinstance(n, ast.Name) and n.id == v and isinstance(n.ctx, ast.Load)]
            if all((n.lineno, n.col_offset) > (st.lineno, st.col_offset) for n in uses):
                ok[v] = (st, val)
        if not ok:
            continue

        class _S(ast.NodeTransformer):
            def visit_Name(self, n):
                if isinstance(n.ctx, ast.Load) and n.id in ok:
                    return ast.copy_location(copy.deepcopy(ok[n.id][1]), n)
                return n
        drop = {id(st) for (st, _v) in ok.values()}
        f.body = [st for st in f.body if id(st) not in drop] or [ast.Pass(lineno=f.lineno, col_offset=0)]
        _S().visit(f)
        ast.fix_missing_locations(f)
        n_done += len(ok)
    return n_done


# ---------------------------------------------------------------------------------------------------------------- N-guard
def positive_guards(tree, flags=("_USE_CYTHON",)) -> int:
    """`if not FLAG: A; return ..` followed by REST   ->   `if FLAG: REST  else: A; return ..`
       `if not FLAG: A  else: B`                        ->   `if FLAG: B  else: A`
    for the module-level implementation switches: the rules that pair a compiled function with its fallback read the switch in its
    positive form.  Same program, same line numbers."""
    n = 0

    def is_neg(t):
        return isinstance(t, ast.UnaryOp) and isinstance(t.op, ast.Not) and isinstance(t.operand, ast.Name) and t.operand.id in flags

    def fix(stmts):
        nonlocal n
        i = 0
        while i < len(stmts):
            st = stmts[i]
            for fld in ("body", "orelse", "finalbody"):
                sub = getattr(st, fld, None)
                if isinstance(sub, list) and sub and isinstance(sub[0], ast.stmt) and not isinstance(st, ast.ClassDef):
                    fix(sub)
            for h in getattr(st, "handlers", []) or []:
                fix(h.body)
            if isinstance(st, ast.If) and is_neg(st.test):
                if st.orelse:
                    st.test, st.body, st.orelse = st.test.operand, st.orelse, st.body
                    n += 1
                elif st.body and isinstance(st.body[-1], (ast.Return, ast.Raise)) and stmts[i + 1:]:
                    rest = stmts[i + 1:]
                    st.test, st.orelse, st.body = st.test.operand, st.body, rest
                    del stmts[i + 1:]
                    n += 1
            i += 1
    for c in ast.walk(tree):
        if isinstance(c, (ast.FunctionDef, ast.AsyncFunctionDef)):
            fix(c.body)
    return n


def _fresh_field_alias(f, cname, frozen_of) -> int:
    """`v = E` directly followed by `self.g = v` (top level of the method; v bound once; self.g bound by this method alone, here):
    afterwards v and self.g name the same object, so  self.g = E  and every later read of v is a read of self.g."""
    a = f.args
    params = {x.arg for x in a.posonlyargs + a.args + a.kwonlyargs}
    done = 0
    # the chained form `self.g = v = E` is `v = E; self.g = v`
    k = 0
    while k < len(f.body):
        st = f.body[k]
        if isinstance(st, ast.Assign) and len(st.targets) == 2:
            names = [t for t in st.targets if isinstance(t, ast.Name)]
            flds = [t for t in st.targets if _self_chain(t) is not None and len(_self_chain(t)) == 1]
            if len(names) == 1 and len(flds) == 1 and names[0].id not in params:
                first = ast.copy_location(ast.Assign(targets=[names[0]], value=st.value), st)
                second = ast.copy_location(ast.Assign(targets=[flds[0]], value=ast.Name(id=names[0].id, ctx=ast.Load())), st)
                second.col_offset = st.col_offset + 1          # keeps "later in the source" comparisons meaningful
                f.body[k:k + 1] = [first, second]
                ast.fix_missing_locations(first)
                ast.fix_missing_locations(second)
                k += 1
        k += 1
    i = 0
    while i + 1 < len(f.body):
        s1, s2 = f.body[i], f.body[i + 1]
        i += 1
        v = None
        if isinstance(s1, ast.Assign) and len(s1.targets) == 1 and isinstance(s1.targets[0], ast.Name):
            v, val = s1.targets[0].id, s1.value
        elif isinstance(s1, ast.AnnAssign) and isinstance(s1.target, ast.Name) and s1.value is not None:
            v, val = s1.target.id, s1.value
        if v is None or v in params:
            continue
        if not (isinstance(s2, ast.Assign) and len(s2.targets) == 1 and isinstance(s2.value, ast.Name) and s2.value.id == v):
            continue
        ch = _self_chain(s2.targets[0])
        if ch is None or len(ch) != 1:
            continue
        g = ch[0]
        binds = sum(1 for n in ast.walk(f) if isinstance(n, ast.Name) and n.id == v and isinstance(n.ctx, (ast.Store, ast.Del)))
        nested = any(isinstance(n, (ast.FunctionDef, ast.AsyncFunctionDef, ast.Lambda)) and n is not f and
                     any(isinstance(x, ast.Name) and x.id == v for x in ast.walk(n)) for n in ast.walk(f))
        g_stores = sum(1 for n in ast.walk(f) if isinstance(n, ast.Attribute) and n.attr == g and isinstance(n.ctx, (ast.Store, ast.Del)))
        if binds != 1 or nested or g_stores != 1 or not frozen_of.only_stored_by(cname, g, f.name):
            continue
        field = s2.targets[0]

        class _S(ast.NodeTransformer):
            def visit_Name(self, n):
                if isinstance(n.ctx, ast.Load) and n.id == v:
                    fld = copy.deepcopy(field)
                    for x in ast.walk(fld):
                        if hasattr(x, "ctx"):
                            x.ctx = ast.Load()
                    return ast.copy_location(fld, n)
                return n
        s2.value = val
        idx = f.body.index(s1)
        del f.body[idx]
        for st in f.body[idx + 1:]:
            _S().visit(st)
        ast.fix_missing_locations(f)
        done += 1
        i = idx
    return done
