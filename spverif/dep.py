"""DEP — may-dependence closure.

For an expression (at a program point) the set of *atoms* it may depend on:

    param:<name>        a parameter of the function under analysis
    field:<attr>        a read of <obj>.<attr>
    pattr:<id>          attribute-protocol read: x.get("<id>"[, sc]), x[("<id>", sc)], x["<id>"],
                        project.attributes["<id>"] / .attributes.get("<id>")
    call:<name>         result of calling something whose last name component is <name>
    global:<name>       module-level name
    free:<name>         variable of an enclosing function
    const:<v>           numeric literal

The analysis over-approximates flows (union at joins, weak updates on containers, callee
return summaries substituted at call sites, optional closure through heap contents), so the
*absence* of an atom is a sound fact: the value cannot depend on it.  That is what the
must-depend rules use.
"""
from __future__ import annotations

import ast
import sys
from typing import Optional

from .callgraph import CallGraph
from .cfg import CFG, Node, cfg_of
from .model import Func, Repo, const_str, dotted, own_nodes

sys.setrecursionlimit(max(sys.getrecursionlimit(), 20000))

MUTATORS = {"append", "extend", "add", "update", "insert", "setdefault", "appendleft", "remove", "discard",
            "pop", "clear", "sort"}


def ctl(atoms) -> set:
    """Tag atoms as control-only influence ('~' prefix)."""
    return {a if a.startswith("~") else "~" + a for a in atoms}


def data(atoms) -> set:
    """Atoms that reach the value through data flow (not merely by controlling a branch)."""
    return {a for a in atoms if not a.startswith("~")}


def full(atoms) -> set:
    """Data and control influence merged (tags stripped)."""
    return {a[1:] if a.startswith("~") else a for a in atoms}


def pattr_of(node: ast.AST) -> Optional[tuple]:
    """Recognise an attribute-protocol access.  Returns (id, receiver expr, scenario expr|None)."""
    if isinstance(node, ast.Call) and isinstance(node.func, ast.Attribute) and node.func.attr == "get" and node.args:
        s = const_str(node.args[0])
        if s is not None:
            recv = node.func.value
            # x.attributes.get("id") -> receiver x
            if isinstance(recv, ast.Attribute) and recv.attr == "attributes":
                return (s, recv.value, None)
            sc = node.args[1] if len(node.args) > 1 else None
            return (s, recv, sc)
    if isinstance(node, ast.Subscript):
        sl = node.slice
        if isinstance(sl, ast.Tuple) and len(sl.elts) == 2:
            s = const_str(sl.elts[0])
            if s is not None:
                return (s, node.value, sl.elts[1])
        s = const_str(sl)
        if s is not None:
            recv = node.value
            if isinstance(recv, ast.Attribute) and recv.attr == "attributes":
                return (s, recv.value, None)
            return (s, recv, None)
    return None


class Summary:
    __slots__ = ("ret", "writes", "pwrites")

    def __init__(self):
        self.ret: set = set()
        self.writes: dict = {}     # field attr -> atoms
        self.pwrites: dict = {}    # pattr id -> atoms

    def key(self):
        return (frozenset(self.ret), tuple(sorted((k, frozenset(v)) for k, v in self.writes.items())),
                tuple(sorted((k, frozenset(v)) for k, v in self.pwrites.items())))


class FuncDep:
    """Intraprocedural result for one function."""

    def __init__(self, dep: "Dep", fn: Func):
        self.dep = dep
        self.fn = fn
        self.cfg: CFG = cfg_of(fn)
        self.env_in: dict = {}     # node id -> {var: atoms}
        self._cd_cache: dict = {}
        self._ctrl_nodes: dict = {}
        self._collect = False
        self.heap_writes: list = []   # (attr, atoms, node)  `o.attr = v`, `o.attr[k] = v`, o.attr.append(v)
        self.pattr_writes: list = []  # (id, atoms, node, scenario expr)
        self._solve()

    # ---------------------------------------------------------------- expression deps
    def deps(self, e: ast.AST, env: dict, bound: dict = None) -> set:
        d = self.dep
        if e is None:
            return set()
        if isinstance(e, ast.Constant):
            if isinstance(e.value, (int, float)) and not isinstance(e.value, bool):
                return {f"const:{e.value}"}
            if isinstance(e.value, str) and 0 < len(e.value) <= 40 and e.value.replace("_", "").isalnum():
                return {f"str:{e.value}"}          # names passed as data (attribute ids, keys)
            return set()
        if isinstance(e, ast.Name):
            n = e.id
            if bound and n in bound:
                return set(bound[n])
            if n in env:
                return set(env[n])
            if n in self.fn.params:
                return {f"param:{n}"}
            f = self.fn.parent
            while f is not None:
                if n in f.params or n in d.locals_of(f):
                    out = {f"free:{n}"}
                    out |= d.free_var(f, n)
                    return out
                f = f.parent
            if n in self.dep.locals_of(self.fn):
                return set()          # local not yet assigned on this path
            if n in ("True", "False", "None", "self"):
                return set()
            return {f"global:{n}"}
        pa = pattr_of(e)
        if pa is not None:
            pid, recv, sc = pa
            out = {f"pattr:{pid}"} | self.deps(recv, env, bound)
            if sc is not None:
                out |= self.deps(sc, env, bound)
            if isinstance(e, ast.Call):
                for a in e.args[1:]:
                    out |= self.deps(a, env, bound)
            return out
        if isinstance(e, ast.Attribute):
            out = self.deps(e.value, env, bound) | {f"field:{e.attr}"}
            if e.attr in d.cg.properties and not d.cg.receiver_foreign(self.fn, e.value):
                for p in d.cg.properties[e.attr]:
                    out |= self._subst(d.summary(p).ret, p, None, [], [], env, bound, recv=e.value)
            return out
        if isinstance(e, ast.Call):
            out = set()
            fx = e.func
            name = dotted(fx)
            last = name.split(".")[-1] if name else None
            recv = fx.value if isinstance(fx, ast.Attribute) else None
            if recv is not None:
                out |= self.deps(recv, env, bound)
            elif isinstance(fx, ast.Name):
                # calling a local variable: its deps matter (callable value)
                if fx.id in env:
                    out |= env[fx.id]
            else:
                out |= self.deps(fx, env, bound)
            for a in e.args:
                out |= self.deps(a.value if isinstance(a, ast.Starred) else a, env, bound)
            for k in e.keywords:
                out |= self.deps(k.value, env, bound)
            if last:
                out.add(f"call:{last}")
            for tg in d.cg.resolve_call(self.fn, e):
                sm = d.summary(tg)
                out |= self._subst(sm.ret, tg, e, e.args, e.keywords, env, bound, recv=recv)
            return out
        if isinstance(e, ast.Lambda):
            f = getattr(e, "_func", None)
            return set(self.dep.summary(f).ret) if f is not None else set()
        if isinstance(e, (ast.ListComp, ast.SetComp, ast.GeneratorExp, ast.DictComp)):
            b = dict(bound or {})
            out = set()
            for g in e.generators:
                it = self.deps(g.iter, env, b)
                out |= it
                for t in ast.walk(g.target):
                    if isinstance(t, ast.Name):
                        b[t.id] = it
                for c in g.ifs:
                    out |= self.deps(c, env, b)
            if isinstance(e, ast.DictComp):
                out |= self.deps(e.key, env, b) | self.deps(e.value, env, b)
            else:
                out |= self.deps(e.elt, env, b)
            return out
        if isinstance(e, ast.NamedExpr):
            return self.deps(e.value, env, bound)
        out = set()
        for ch in ast.iter_child_nodes(e):
            if isinstance(ch, (ast.expr_context, ast.operator, ast.boolop, ast.unaryop, ast.cmpop)):
                continue
            if isinstance(ch, ast.keyword):
                out |= self.deps(ch.value, env, bound)
            elif isinstance(ch, ast.expr) or isinstance(ch, ast.slice if hasattr(ast, "slice") else ast.expr):
                out |= self.deps(ch, env, bound)
            elif isinstance(ch, ast.FormattedValue):
                out |= self.deps(ch.value, env, bound)
        return out

    def _subst(self, atoms: set, callee: Func, call, args, keywords, env, bound, recv=None) -> set:
        """Replace the callee's param atoms by the deps of the actuals."""
        if not any(a.startswith("param:") or a.startswith("~param:") for a in atoms):
            return set(atoms)
        params = callee.params
        binding: dict = {}
        pos = list(params)
        is_method = callee.cls is not None and callee.parent is None and not callee.is_static
        if is_method and pos:
            selfname = pos.pop(0)
            if recv is not None:
                binding[selfname] = self.deps(recv, env, bound)
            else:
                binding[selfname] = set()
        star = set()
        i = 0
        for a in args:
            if isinstance(a, ast.Starred):
                star |= self.deps(a.value, env, bound)
                continue
            if i < len(pos):
                binding.setdefault(pos[i], set()).update(self.deps(a, env, bound))
            i += 1
        for k in keywords:
            if k.arg is None:
                star |= self.deps(k.value, env, bound)
            else:
                binding.setdefault(k.arg, set()).update(self.deps(k.value, env, bound))
        out = set()
        for a in atoms:
            if a.startswith("param:"):
                out |= binding.get(a[6:], set()) | star
            elif a.startswith("~param:"):
                out |= ctl(binding.get(a[7:], set()) | star)
            else:
                out.add(a)
        return out

    # ---------------------------------------------------------------- dataflow
    def _assign(self, target: ast.AST, val: set, env: dict, node: Node, ctl: set, value_node=None):
        if isinstance(target, ast.Name):
            env[target.id] = set(val)
        elif isinstance(target, (ast.Tuple, ast.List)):
            vs = None
            if isinstance(value_node, (ast.Tuple, ast.List)) and len(value_node.elts) == len(target.elts):
                vs = value_node.elts
            for i, t in enumerate(target.elts):
                if isinstance(t, ast.Starred):
                    t = t.value
                if vs is not None:
                    self._assign(t, self.deps(vs[i], env), env, node, ctl, vs[i])
                else:
                    self._assign(t, val, env, node, ctl)
        elif isinstance(target, ast.Attribute):
            if self._collect:
                self.heap_writes.append((target.attr, set(val) | ctl, node, target))
        elif isinstance(target, ast.Subscript):
            pa = pattr_of(target)
            k = self.deps(target.slice, env)
            if pa is not None:
                pid, recv, sc = pa
                if self._collect:
                    self.pattr_writes.append((pid, set(val) | ctl | (self.deps(sc, env) if sc is not None else set()), node, sc, target))
                return
            base = target.value
            if isinstance(base, ast.Name):
                env[base.id] = set(env.get(base.id, self.deps(base, env))) | val | k
            elif isinstance(base, ast.Attribute):
                if self._collect:
                    self.heap_writes.append((base.attr, set(val) | k | ctl, node, target))
            elif isinstance(base, ast.Subscript) and isinstance(base.value, ast.Attribute):
                if self._collect:
                    self.heap_writes.append((base.value.attr, set(val) | k | self.deps(base.slice, env) | ctl, node, target))
            elif isinstance(base, ast.Subscript) and isinstance(base.value, ast.Name):
                nm = base.value.id
                env[nm] = set(env.get(nm, set())) | val | k

    def _transfer(self, n: Node, env: dict) -> dict:
        env = dict(env)
        a = n.ast
        if n.kind == "stmt":
            if isinstance(a, (ast.Assign, ast.AugAssign, ast.AnnAssign, ast.Expr)):
                c = self.ctl_atoms(n)
            else:
                c = set()
            if isinstance(a, ast.Assign):
                v = self.deps(a.value, env) | c
                for t in a.targets:
                    self._assign(t, v, env, n, c, a.value)
            elif isinstance(a, ast.AnnAssign):
                if a.value is not None:
                    self._assign(a.target, self.deps(a.value, env) | c, env, n, c, a.value)
            elif isinstance(a, ast.AugAssign):
                v = self.deps(a.value, env) | self.deps(a.target, env) | c
                self._assign(a.target, v, env, n, c)
            elif isinstance(a, ast.Expr):
                self._effects(a.value, env, n, c)
            elif isinstance(a, (ast.FunctionDef, ast.AsyncFunctionDef)):
                env[a.name] = set()
            elif isinstance(a, (ast.Import, ast.ImportFrom)):
                for al in a.names:
                    env[(al.asname or al.name).split(".")[0]] = set()
        elif n.kind == "for":
            it = self.deps(a.iter, env)
            self._assign(a.target, it, env, n, set())
        elif n.kind == "with":
            for item in a.items:
                if item.optional_vars is not None:
                    self._assign(item.optional_vars, self.deps(item.context_expr, env), env, n, set())
        elif n.kind == "except":
            h = a
            if isinstance(h, ast.ExceptHandler) and h.name:
                env[h.name] = {"exc"}
        # walrus anywhere
        if a is not None and n.kind in ("if", "while", "stmt"):
            for sub in ast.walk(a) if not isinstance(a, (ast.FunctionDef, ast.ClassDef)) else []:
                if isinstance(sub, ast.NamedExpr):
                    env[sub.target.id] = self.deps(sub.value, env)
        return env

    def _writes_heap(self, a) -> bool:
        for t in ast.walk(a):
            if isinstance(t, (ast.Attribute, ast.Subscript)) and isinstance(getattr(t, "ctx", None), ast.Store):
                return True
            if isinstance(t, ast.Call) and isinstance(t.func, ast.Attribute) and t.func.attr in MUTATORS:
                return True
        return False

    def _effects(self, e: ast.AST, env: dict, n: Node, ctl: set):
        """Mutating method calls used as statements: x.append(v), o.f.append(v)."""
        if isinstance(e, ast.Call) and isinstance(e.func, ast.Attribute) and e.func.attr in MUTATORS:
            v = set()
            for a in e.args:
                v |= self.deps(a, env)
            base = e.func.value
            if isinstance(base, ast.Call) and isinstance(base.func, ast.Attribute) and base.func.attr in ("setdefault", "get") and base.args:
                # d.setdefault(k, []).append(v)  ==  d[k].append(v)  (the element is created on demand)
                base = ast.copy_location(ast.Subscript(value=base.func.value, slice=base.args[0], ctx=ast.Load()), base)
            if isinstance(base, ast.Name):
                env[base.id] = set(env.get(base.id, self.deps(base, env))) | v
            elif isinstance(base, ast.Attribute):
                if self._collect:
                    self.heap_writes.append((base.attr, v | ctl, n, e))
            elif isinstance(base, ast.Subscript) and isinstance(base.value, ast.Attribute):
                if self._collect:
                    self.heap_writes.append((base.value.attr, v | self.deps(base.slice, env) | ctl, n, e))
            elif isinstance(base, ast.Subscript) and isinstance(base.value, ast.Name):
                nm = base.value.id
                env[nm] = set(env.get(nm, set())) | v | self.deps(base.slice, env)

    def _solve(self):
        g = self.cfg
        order = g._rpo(g.entry.id, g.succ, set(range(len(g.nodes))))
        self.env_in = {g.entry.id: {}}
        self._collect = False
        for _round in range(12):
            changed = False
            self._cd_cache = {}
            for nid in order:
                if nid not in self.env_in:
                    continue
                n = g.nodes[nid]
                out = self._transfer(n, self.env_in[nid])
                for (b, _l) in g.succ[nid]:
                    cur = self.env_in.get(b)
                    if cur is None:
                        self.env_in[b] = {k: set(v) for k, v in out.items()}
                        changed = True
                    else:
                        for k, v in out.items():
                            if k not in cur:
                                cur[k] = set(v)
                                changed = True
                            elif not v <= cur[k]:
                                cur[k] |= v
                                changed = True
            if not changed:
                break
        # final pass: collect writes with converged environments
        self._cd_cache = {}
        self._collect = True
        self.heap_writes, self.pattr_writes = [], []
        for n in g.nodes:
            if n.id in self.env_in:
                self._transfer(n, self.env_in[n.id])
        self._collect = False

    # ---------------------------------------------------------------- queries
    def env_at(self, n: Node) -> dict:
        return self.env_in.get(n.id, {})

    def ctl_atoms(self, n: Node) -> set:
        """Control-tagged atoms of every condition that (transitively) controls node n."""
        if n.id in self._cd_cache:
            return self._cd_cache[n.id]
        out = set()
        ctrl = self._ctrl_nodes.get(n.id)
        if ctrl is None:
            ctrl = self._ctrl_nodes[n.id] = sorted({a for (a, _l) in self.cfg.transitive_control(n)})
        for a in ctrl:
            b = self.cfg.nodes[a]
            env = self.env_in.get(a, {})
            if b.kind in ("if", "while"):
                out |= self.deps(b.ast, env)
            elif b.kind == "for":
                out |= self.deps(b.ast.iter, env)
        out = ctl(out)
        self._cd_cache[n.id] = out
        return out

    def deps_of(self, e: ast.AST, control: bool = False) -> set:
        """Atoms of sub-expression e evaluated at its own statement."""
        n = self.cfg.node_containing(e)
        if n is None:
            return set()
        env = self.env_in.get(n.id, {})
        out = self.deps(e, env)
        if control:
            out |= self.ctl_atoms(n)
        return out

    def var_at(self, name: str, n: Node) -> set:
        return set(self.env_in.get(n.id, {}).get(name, set()))


class Dep:
    def __init__(self, repo: Repo, cg: CallGraph = None):
        self.repo = repo
        self.cg = cg or CallGraph(repo)
        self._fd: dict = {}
        self._sum: dict = {}
        self._inprog: set = set()
        self._sumprog: set = set()
        self._cut: set = set()
        self._approx: dict = {}
        self._locals: dict = {}
        self._heap: Optional[dict] = None
        self._pheap: Optional[dict] = None

    def locals_of(self, fn: Func) -> set:
        if fn not in self._locals:
            s = set()
            for n in own_nodes(fn):
                if isinstance(n, ast.Name) and isinstance(n.ctx, ast.Store):
                    s.add(n.id)
                elif isinstance(n, (ast.FunctionDef, ast.AsyncFunctionDef)):
                    s.add(n.name)
                elif isinstance(n, ast.ExceptHandler) and n.name:
                    s.add(n.name)
                elif isinstance(n, (ast.Import, ast.ImportFrom)):
                    for al in n.names:
                        s.add((al.asname or al.name).split(".")[0])
            self._locals[fn] = s
        return self._locals[fn]

    def free_var(self, outer: Func, name: str) -> set:
        """Union of what `name` may hold anywhere in the enclosing function."""
        if outer in self._inprog:
            return set()
        fd = self.of(outer)
        out = set()
        if name in outer.params:
            out.add(f"param:{name}")
        for env in fd.env_in.values():
            if name in env:
                out |= env[name]
        return out

    def of(self, fn: Func) -> FuncDep:
        if fn not in self._fd:
            self._inprog.add(fn)
            try:
                self._fd[fn] = FuncDep(self, fn)
            finally:
                self._inprog.discard(fn)
        return self._fd[fn]

    def summary(self, fn: Func) -> Summary:
        if fn in self._sum:
            return self._sum[fn]
        if fn in self._sumprog:
            self._cut.add(fn)
            return self._approx.setdefault(fn, Summary())
        self._sumprog.add(fn)
        try:
            sm = Summary()
            for _round in range(4):
                self._cut.discard(fn)
                self._fd.pop(fn, None)
                fd = self.of(fn)
                sm = Summary()
                g = fd.cfg
                for n in g.nodes:
                    if n.kind == "stmt" and isinstance(n.ast, ast.Return) and n.id in fd.env_in:
                        sm.ret |= fd.deps(n.ast.value, fd.env_in[n.id]) | fd.ctl_atoms(n)
                # generators: yielded values count as returned
                for x in own_nodes(fn):
                    if isinstance(x, (ast.Yield, ast.YieldFrom)) and x.value is not None:
                        sm.ret |= fd.deps_of(x.value, control=True)
                for (attr, atoms, _n, _t) in fd.heap_writes:
                    sm.writes.setdefault(attr, set()).update(atoms)
                for (pid, atoms, _n, _sc, _t) in fd.pattr_writes:
                    sm.pwrites.setdefault(pid, set()).update(atoms)
                if fn not in self._cut:
                    break
                prev = self._approx.get(fn)
                if prev is not None and prev.key() == sm.key():
                    break
                self._approx[fn] = sm
        finally:
            self._sumprog.discard(fn)
        self._approx.pop(fn, None)
        self._sum[fn] = sm
        return sm

    # ---------------------------------------------------------------- heap contents
    def heap(self) -> tuple:
        """(field attr -> atoms stored there anywhere in the package,
            pattr id  -> atoms stored there)."""
        if self._heap is None:
            h: dict = {}
            p: dict = {}
            for fn in list(self.repo.all_funcs()):
                sm = self.summary(fn)
                for k, v in sm.writes.items():
                    h.setdefault(k, set()).update(a for a in v if not a.startswith("param:"))
                for k, v in sm.pwrites.items():
                    p.setdefault(k, set()).update(a for a in v if not a.startswith("param:"))
            self._heap, self._pheap = h, p
        return self._heap, self._pheap

    def close_heap(self, atoms: set, fields: bool = True, pattrs: bool = False) -> set:
        h, p = self.heap()
        out = set(atoms)
        todo = list(atoms)
        while todo:
            a = todo.pop()
            new = set()
            if fields and a.startswith("field:"):
                new = h.get(a[6:], set())
            elif pattrs and a.startswith("pattr:"):
                new = p.get(a[6:], set())
            for x in new:
                if x not in out:
                    out.add(x)
                    todo.append(x)
        return out
