"""Statement-level control-flow graph for the statement kinds scriptplan uses, with
exceptional edges, dominators / post-dominators and control dependence.

Nodes
    entry, exit (normal return / fall off the end), raise (exception leaves the function)
    stmt    a simple statement (Assign, Expr, Return, Raise, ...)
    if / while      the test expression; out-edges labelled 'T' / 'F'
    for     iterator advance; 'T' = another element, 'F' = exhausted
    with    evaluation of the context managers
    except  entry of an exception handler
    join    artificial (finally copies etc.)

Exceptional edges (label 'exc') leave every node that can raise (contains a call, subscript,
attribute access, arithmetic, or is a `raise`) towards the handlers of the enclosing `try`
statements, innermost first, continuing outwards until a handler catches everything the
node can raise, and finally to the `raise` node.  `with contextlib.suppress(...)` is treated
as a handler for the suppressed classes.  With exc_everywhere=False (default) only nodes
lexically inside a `try`/suppress and explicit `raise` statements get exceptional edges.
"""
from __future__ import annotations

import ast
from dataclasses import dataclass, field
from typing import Iterable, Optional

from .model import Func, dotted

BUILTIN_EXC_PARENT = {
    "BaseException": None, "Exception": "BaseException", "SystemExit": "BaseException",
    "KeyboardInterrupt": "BaseException", "GeneratorExit": "BaseException",
    "ArithmeticError": "Exception", "ZeroDivisionError": "ArithmeticError", "OverflowError": "ArithmeticError",
    "LookupError": "Exception", "IndexError": "LookupError", "KeyError": "LookupError",
    "AttributeError": "Exception", "ValueError": "Exception", "TypeError": "Exception",
    "UnicodeError": "ValueError", "UnicodeDecodeError": "UnicodeError", "UnicodeEncodeError": "UnicodeError",
    "RuntimeError": "Exception", "RecursionError": "RuntimeError", "NotImplementedError": "RuntimeError",
    "OSError": "Exception", "IOError": "Exception", "FileNotFoundError": "OSError", "PermissionError": "OSError",
    "FileExistsError": "OSError", "IsADirectoryError": "OSError", "NotADirectoryError": "OSError",
    "ImportError": "Exception", "ModuleNotFoundError": "ImportError", "NameError": "Exception",
    "AssertionError": "Exception", "StopIteration": "Exception", "MemoryError": "Exception",
    "json.JSONDecodeError": "ValueError", "JSONDecodeError": "ValueError", "re.error": "Exception",
}


@dataclass
class Node:
    id: int
    kind: str
    ast: Optional[ast.AST] = None
    handler_types: Optional[list] = None    # for 'except': list of class names, None = bare
    lineno: int = 0

    def __repr__(self):
        return f"<{self.kind}#{self.id}@{self.lineno}>"


class CFG:
    def __init__(self, fn: Func):
        self.fn = fn
        self.nodes: list[Node] = []
        self.succ: dict[int, list] = {}
        self.pred: dict[int, list] = {}
        self.entry = self._new("entry")
        self.exit = self._new("exit")
        self.raise_ = self._new("raise")
        self.stmt_node: dict[int, Node] = {}   # id(ast stmt) -> first node of the statement

    def _new(self, kind, a=None, **kw) -> Node:
        n = Node(len(self.nodes), kind, a, lineno=getattr(a, "lineno", 0) or 0, **kw)
        n.in_handler = getattr(self, "_hdepth", 0) > 0
        self.nodes.append(n)
        self.succ[n.id] = []
        self.pred[n.id] = []
        return n

    def edge(self, a: Node, b: Node, label: str = ""):
        if (b.id, label) not in self.succ[a.id]:
            self.succ[a.id].append((b.id, label))
            self.pred[b.id].append((a.id, label))

    def successors(self, n: Node, labels: Iterable[str] = None):
        for (b, l) in self.succ[n.id]:
            if labels is None or l in labels:
                yield self.nodes[b], l

    def predecessors(self, n: Node):
        for (a, l) in self.pred[n.id]:
            yield self.nodes[a], l

    def node_of(self, stmt: ast.AST) -> Optional[Node]:
        return self.stmt_node.get(id(stmt))

    def node_containing(self, sub: ast.AST) -> Optional[Node]:
        """CFG node whose own expression/statement contains the given sub-expression."""
        p = sub
        while p is not None:
            n = self.stmt_node.get(id(p))
            if n is not None:
                return n
            p = getattr(p, "_parent", None)
        return None

    # ------------------------------------------------------------ graph algorithms
    def reachable(self, start: Node = None, normal_only: bool = False) -> set:
        start = start or self.entry
        seen = {start.id}
        todo = [start.id]
        while todo:
            a = todo.pop()
            for (b, l) in self.succ[a]:
                if normal_only and l in ("exc", "excb"):
                    continue
                if b not in seen:
                    seen.add(b)
                    todo.append(b)
        return seen

    def _dom(self, root: int, succ, pred, universe) -> dict:
        """Iterative dominator sets (graphs here are small)."""
        dom = {n: set(universe) for n in universe}
        dom[root] = {root}
        order = self._rpo(root, succ, universe)
        changed = True
        while changed:
            changed = False
            for n in order:
                if n == root:
                    continue
                ps = [p for (p, _l) in pred[n] if p in universe]
                if not ps:
                    new = {n}
                else:
                    new = set.intersection(*(dom[p] for p in ps)) | {n}
                if new != dom[n]:
                    dom[n] = new
                    changed = True
        return dom

    def _rpo(self, root, succ, universe):
        seen, out = set(), []

        def dfs(n):
            stack = [(n, iter(succ[n]))]
            seen.add(n)
            while stack:
                node, it = stack[-1]
                for (b, _l) in it:
                    if b in universe and b not in seen:
                        seen.add(b)
                        stack.append((b, iter(succ[b])))
                        break
                else:
                    out.append(node)
                    stack.pop()

        dfs(root)
        out.reverse()
        return out

    def dominators(self, normal_only=True) -> dict:
        key = ("dom", normal_only)
        if not hasattr(self, "_cache"):
            self._cache = {}
        if key not in self._cache:
            succ, pred = self._views(normal_only)
            uni = self.reachable(normal_only=normal_only)
            self._cache[key] = self._dom(self.entry.id, succ, pred, uni)
        return self._cache[key]

    def _views(self, normal_only):
        if not normal_only:
            return self.succ, self.pred
        succ = {a: [(b, l) for (b, l) in v if l not in ("exc", "excb")] for a, v in self.succ.items()}
        pred = {a: [(b, l) for (b, l) in v if l not in ("exc", "excb")] for a, v in self.pred.items()}
        return succ, pred

    def postdominators(self, normal_only=True) -> dict:
        key = ("pdom", normal_only)
        if not hasattr(self, "_cache"):
            self._cache = {}
        if key not in self._cache:
            succ, pred = self._views(normal_only)
            # virtual sink joining exit and raise
            sink = -1
            rsucc = {n: list(v) for n, v in pred.items()}   # reversed graph: succ = pred
            rpred = {n: list(v) for n, v in succ.items()}
            rsucc[sink] = [(self.exit.id, ""), (self.raise_.id, "")]
            rpred[sink] = []
            rpred[self.exit.id] = rpred[self.exit.id] + [(sink, "")]
            rpred[self.raise_.id] = rpred[self.raise_.id] + [(sink, "")]
            # universe: nodes that can reach sink
            uni = {sink}
            todo = [sink]
            while todo:
                a = todo.pop()
                for (b, _l) in rsucc[a]:
                    if b not in uni:
                        uni.add(b)
                        todo.append(b)
            self._cache[key] = self._dom(sink, rsucc, rpred, uni)
        return self._cache[key]

    def control_deps(self, normal_only=True) -> dict:
        """node id -> set of (branch node id, label) the node is control dependent on
        (Ferrante-Ottenstein-Warren via post-dominators)."""
        key = ("cd", normal_only)
        if not hasattr(self, "_cache"):
            self._cache = {}
        if key in self._cache:
            return self._cache[key]
        pdom = self.postdominators(normal_only)
        succ, _ = self._views(normal_only)
        cd = {n.id: set() for n in self.nodes}
        for a, outs in succ.items():
            if len({b for b, _ in outs}) < 2:
                continue
            for (b, l) in outs:
                if b not in pdom or a not in pdom:
                    continue
                strict_a = pdom[a] - {a}
                # n post-dominates b but does not strictly post-dominate a
                for n in pdom[b]:
                    if n == -1 or n in strict_a:
                        continue
                    cd[n].add((a, l))
        self._cache[key] = cd
        return cd

    def transitive_control(self, node: Node, normal_only=True) -> set:
        """All (branch id, label) pairs that transitively control the node."""
        cd = self.control_deps(normal_only)
        seen, todo = set(), [node.id]
        out = set()
        while todo:
            n = todo.pop()
            for (a, l) in cd[n]:
                out.add((a, l))
                if a not in seen:
                    seen.add(a)
                    todo.append(a)
        return out

    def all_paths_pass(self, src: Node, dst: Node, pred_fn, normal_only=True, avoid_labels=()) -> bool:
        """True iff every path src ->* dst passes a node n (other than dst) with pred_fn(n).
        Computed as: dst unreachable from src once satisfying nodes are removed."""
        if pred_fn(src):
            return True
        seen = {src.id}
        todo = [src.id]
        while todo:
            a = todo.pop()
            for (b, l) in self.succ[a]:
                if normal_only and l in ("exc", "excb"):
                    continue
                if l in avoid_labels:
                    continue
                if b == dst.id:
                    return False
                nb = self.nodes[b]
                if b in seen or pred_fn(nb):
                    continue
                seen.add(b)
                todo.append(b)
        return True


# -------------------------------------------------------------------- construction
def may_raise(node: ast.AST) -> bool:
    if isinstance(node, ast.Raise):
        return True
    for n in ast.walk(node):
        if isinstance(n, (ast.Call, ast.Subscript, ast.Attribute, ast.BinOp, ast.Compare, ast.Await,
                          ast.Import, ast.ImportFrom, ast.Assert, ast.Starred)):
            return True
        if isinstance(n, (ast.Tuple, ast.List)) and isinstance(getattr(n, "ctx", None), ast.Store):
            return True
    return False


@dataclass
class _Ctx:
    handlers: list          # list of (except Node, [type names] | None for bare)
    outer: Optional["_Ctx"]
    finally_body: Optional[list] = None


class _Builder:
    def __init__(self, fn: Func, exc_everywhere: bool, class_table: dict):
        self.g = CFG(fn)
        self.exc_everywhere = exc_everywhere
        self.class_table = class_table       # repo exception classes: name -> base name
        self.loops: list = []                # (continue target, break target)
        self.handler_depth = 0
        self.ctx: Optional[_Ctx] = None

    # --- exceptions -------------------------------------------------------------
    def _is_sub(self, name: str, of: str) -> bool:
        seen = set()
        while name and name not in seen:
            if name == of:
                return True
            seen.add(name)
            name = self.class_table.get(name, BUILTIN_EXC_PARENT.get(name, "Exception" if name != "BaseException" else None))
        return False

    def _catch_all(self, types) -> str:
        """'base' if the handler catches BaseException (everything), 'exc' if it catches all
        Exception subclasses, '' otherwise."""
        if types is None:
            return "base"
        if any(t == "BaseException" for t in types):
            return "base"
        # a repo class shadowing a builtin name is not the builtin
        if any(t == "Exception" and "Exception" not in self.class_table for t in types):
            return "exc"
        return ""

    def add_exc_edges(self, n: Node, raised: Optional[list] = None):
        """raised: explicit class names for `raise X(...)`, else unknown (anything)."""
        c = self.ctx
        if c is None and not self.exc_everywhere and n.kind != "stmt_raise":
            if not isinstance(n.ast, ast.Raise):
                return
        label = "exc"
        while c is not None:
            stop = False
            for (hn, types) in c.handlers:
                if raised:
                    # handler is entered if some raised class is a subclass of a caught type
                    hit = types is None or any(self._is_sub(r, t) for r in raised for t in types)
                    if hit:
                        self.g.edge(n, hn, label)
                        if types is None or all(any(self._is_sub(r, t) for t in types) for r in raised):
                            stop = True
                            break
                else:
                    ca = self._catch_all(types)
                    if label == "excb" and ca == "" and types is not None and not any(
                            t in ("SystemExit", "KeyboardInterrupt", "GeneratorExit") for t in types):
                        continue        # only BaseException-only classes are still in flight
                    self.g.edge(n, hn, label)
                    if ca == "base":
                        stop = True
                        break
                    if ca == "exc":
                        label = "excb"  # every Exception subclass is caught here; only
                                        # SystemExit / KeyboardInterrupt continue outwards
            if stop:
                return
            c = c.outer
        self.g.edge(n, self.g.raise_, label)

    # --- statements ---------------------------------------------------------------
    def seq(self, body: list, preds: list) -> list:
        """preds: list of (Node, label) dangling edges; returns new dangling list."""
        for st in body:
            preds = self.stmt(st, preds)
        return preds

    def _attach(self, preds, n: Node):
        for (p, l) in preds:
            self.g.edge(p, n, l)

    def stmt(self, st: ast.AST, preds: list) -> list:
        g = self.g
        if isinstance(st, ast.If):
            n = g._new("if", st.test)
            n.stmt = st
            g.stmt_node[id(st)] = n
            g.stmt_node[id(st.test)] = n
            self._attach(preds, n)
            self._exc(n, st.test)
            out = self.seq(st.body, [(n, "T")])
            out += self.seq(st.orelse, [(n, "F")]) if st.orelse else [(n, "F")]
            return out
        if isinstance(st, ast.While):
            n = g._new("while", st.test)
            n.stmt = st
            g.stmt_node[id(st)] = n
            g.stmt_node[id(st.test)] = n
            self._attach(preds, n)
            self._exc(n, st.test)
            brk = g._new("join")
            self.loops.append((n, brk))
            body_out = self.seq(st.body, [(n, "T")])
            self.loops.pop()
            self._attach(body_out, n)
            is_true = isinstance(st.test, ast.Constant) and bool(st.test.value)
            out = [] if is_true else (self.seq(st.orelse, [(n, "F")]) if st.orelse else [(n, "F")])
            if g.pred[brk.id]:
                out.append((brk, ""))
            return out
        if isinstance(st, (ast.For, ast.AsyncFor)):
            n = g._new("for", st)
            n.stmt = st
            g.stmt_node[id(st)] = n
            g.stmt_node[id(st.iter)] = n
            g.stmt_node[id(st.target)] = n
            self._attach(preds, n)
            self._exc(n, st.iter)
            brk = g._new("join")
            self.loops.append((n, brk))
            body_out = self.seq(st.body, [(n, "T")])
            self.loops.pop()
            self._attach(body_out, n)
            out = self.seq(st.orelse, [(n, "F")]) if st.orelse else [(n, "F")]
            if g.pred[brk.id]:
                out.append((brk, ""))
            return out
        if isinstance(st, (ast.With, ast.AsyncWith)):
            n = g._new("with", st)
            n.stmt = st
            g.stmt_node[id(st)] = n
            for it in st.items:
                g.stmt_node[id(it.context_expr)] = n
                if it.optional_vars is not None:
                    g.stmt_node[id(it.optional_vars)] = n
            self._attach(preds, n)
            self._exc(n, st)
            sup = self._suppressed(st)
            if sup is not None:
                after = g._new("join")
                hn = g._new("except", st, handler_types=sup)
                g.edge(hn, after, "")
                self.ctx = _Ctx([(hn, sup)], self.ctx)
                out = self.seq(st.body, [(n, "")])
                self.ctx = self.ctx.outer
                self._attach(out, after)
                return [(after, "")]
            return self.seq(st.body, [(n, "")])
        if isinstance(st, ast.Try) or st.__class__.__name__ == "TryStar":
            return self._try(st, preds)
        if isinstance(st, (ast.FunctionDef, ast.AsyncFunctionDef, ast.ClassDef)):
            n = g._new("stmt", st)
            g.stmt_node[id(st)] = n
            self._attach(preds, n)
            return [(n, "")]
        # simple statement
        n = g._new("stmt", st)
        g.stmt_node[id(st)] = n
        self._attach(preds, n)
        if isinstance(st, ast.Return):
            if st.value is not None:
                self._exc(n, st.value)
            self._leave(n, g.exit)
            return []
        if isinstance(st, ast.Raise):
            raised = None
            if st.exc is not None:
                d = dotted(st.exc)
                if d:
                    raised = [d.split(".")[-1] if d.split(".")[-1] in self.class_table or d in BUILTIN_EXC_PARENT
                              or d.split(".")[-1] in BUILTIN_EXC_PARENT else d]
            self.add_exc_edges(n, raised)
            return []
        if isinstance(st, ast.Break):
            g.edge(n, self.loops[-1][1], "")
            return []
        if isinstance(st, ast.Continue):
            g.edge(n, self.loops[-1][0], "")
            return []
        self._exc(n, st)
        return [(n, "")]

    def _leave(self, n: Node, target: Node):
        """return: run enclosing finally bodies (copies) before reaching exit."""
        c = self.ctx
        preds = [(n, "")]
        saved = self.ctx
        while c is not None:
            if c.finally_body:
                self.ctx = c.outer
                preds = self.seq(c.finally_body, preds)
            c = c.outer
        self.ctx = saved
        self._attach(preds, target)

    def _exc(self, n: Node, expr: ast.AST):
        if self.ctx is None and not self.exc_everywhere:
            return
        if may_raise(expr):
            self.add_exc_edges(n)

    def _suppressed(self, st) -> Optional[list]:
        for it in st.items:
            d = dotted(it.context_expr)
            if d and d.split(".")[-1] == "suppress" and isinstance(it.context_expr, ast.Call):
                return [dotted(a) or "?" for a in it.context_expr.args]
        return None

    def _try(self, st, preds):
        g = self.g
        after_nodes = []
        handlers = []
        for h in st.handlers:
            if h.type is None:
                types = None
            elif isinstance(h.type, ast.Tuple):
                types = [(dotted(e) or "?") for e in h.type.elts]
            else:
                types = [dotted(h.type) or "?"]
            if types is not None:
                types = [t if t in BUILTIN_EXC_PARENT else t.split(".")[-1] for t in types]
            hn = g._new("except", h, handler_types=types)
            g.stmt_node[id(h)] = hn
            handlers.append((hn, types))
        fin = st.finalbody or None
        outer = self.ctx
        # context for the try body: own handlers, then finally (exceptional copy), then outer
        if fin:
            # exceptional finally copy: entered by uncaught exceptions, then re-raises outward
            fin_exc_entry = g._new("except", st, handler_types=None)
            body_ctx_outer = _Ctx([(fin_exc_entry, None)], outer, finally_body=fin)
        else:
            body_ctx_outer = outer
        self.ctx = _Ctx(handlers, body_ctx_outer) if handlers else body_ctx_outer
        tn = g._new("join", st)
        g.stmt_node[id(st)] = tn
        self._attach(preds, tn)
        out = self.seq(st.body, [(tn, "")])
        # orelse runs outside the handlers but inside finally
        self.ctx = body_ctx_outer
        if st.orelse:
            out = self.seq(st.orelse, out)
        for (hn, _t), h in zip(handlers, st.handlers):
            g._hdepth = getattr(g, "_hdepth", 0) + 1
            out += self.seq(h.body, [(hn, "")])
            g._hdepth -= 1
        self.ctx = outer
        if fin:
            # normal copy
            out = self.seq(fin, out)
            # exceptional copy, then propagate
            eout = self.seq(fin, [(fin_exc_entry, "")])
            for (p, l) in eout:
                self.add_exc_edges_from(p)
        return out

    def add_exc_edges_from(self, p: Node):
        saved = self.exc_everywhere
        self.exc_everywhere = True
        fake = self.g._new("stmt_raise", None)
        self.g.edge(p, fake, "")
        self.add_exc_edges(fake)
        self.exc_everywhere = saved


def build_cfg(fn: Func, exc_everywhere: bool = False, class_table: dict = None) -> CFG:
    b = _Builder(fn, exc_everywhere, class_table or {})
    out = b.seq(fn.body(), [(b.g.entry, "")])
    for (p, l) in out:
        b.g.edge(p, b.g.exit, l)
    return b.g


_CFG_CACHE: dict = {}


def cfg_of(fn: Func, exc_everywhere: bool = False, class_table: dict = None) -> CFG:
    k = (id(fn.node), exc_everywhere)
    if k not in _CFG_CACHE:
        _CFG_CACHE[k] = build_cfg(fn, exc_everywhere, class_table)
    return _CFG_CACHE[k]
