"""Regenerates /verif/MANIFEST.json from the rule modules (python -m spverif.manifest)."""
import importlib
import json
import os

HERE = os.path.dirname(os.path.abspath(__file__))
VERIF = os.path.dirname(HERE)
ALL = [f"C{i:02d}" for i in range(1, 21)]

NOT_BUILT_REASON = "static check for this property is not built yet in this tree (see DESIGN.md §0 for the planned structural clauses); not claimed until it exists"

NA_REASONS = {}


def main():
    checks, na = [], []
    for p in ALL:
        try:
            mod = importlib.import_module(f"spverif.rules.{p.lower()}")
        except ModuleNotFoundError:
            na.append({"property_id": p, "reason": NA_REASONS.get(p, NOT_BUILT_REASON)})
            continue
        m = mod.META
        if m.get("not_applicable"):
            na.append({"property_id": p, "reason": m["not_applicable"]})
            continue
        checks.append({
            "property_id": p,
            "quick_cmd": f"./check {p} quick",
            "thorough_cmd": f"./check {p} thorough",
            "evidence_file": f"/verif/evidence/{p}.json",
            "replay_cmd_template": "./check explain {path}",
            "engine": "spverif",
            "level_claimed": {
                "category": m["level"],
                "text": m.get("level_text", m["explanation"]),
                "design_ref": m.get("design_ref", f"DESIGN.md §5 {p}"),
            },
            "level_note": m.get("level_note", "Necessary structural conditions only; trusted base: CPython ast, the spverif "
                                "engine (CFG, dominators, dependence closure, call resolution by class-hierarchy analysis), "
                                "repository type annotations for receiver typing; the normal forms applied to the parsed tree before "
                                "any rule runs (N-inline of new private helpers, N-alias of locals naming constructor-only fields, "
                                "positive form of the implementation switch: DESIGN.md 11.11). Assumptions: " + "; ".join(m.get("assumptions", []))),
            "technique": m.get("technique", "static analysis (ast dataflow / control-dependence / call-graph rules)"),
        })
    man = {
        "version": 1,
        "setup_cmd": "./check doctor",
        "hooks": {
            "guard": "SCRIPTPLAN_VERIF",
            "enable": "none needed: the checks are static and read /repo's working tree; no source hooks exist",
            "baseline_off_cmd": "cd /repo && /venv/bin/python -m pytest -ra -q -p no:cacheprovider --timeout=900 --continue-on-collection-errors",
            "source_commits": [],
            "add_only": True,
        },
        "engines": [{"name": "spverif", "path": "/verif/spverif", "serves_properties": [c["property_id"] for c in checks],
                     "kind_free_text": "repo-specific static analyser: ast program model, statement CFG with exceptional edges, "
                                       "dominators/control dependence, may-dependence closure with callee summaries, "
                                       "typestate, order-abstraction truth tables, fast/fallback pair comparison, "
                                       "normal forms (helper inlining, field aliases), finite decision tables read off the syntax tree"}],
        "checks": checks,
        "not_applicable": na,
        "notes": "Static analysis only: no registered check imports, runs, schedules or fuzzes /repo code. Exit 0 = every "
                 "rule instance holds (KNOWN-FINDING lines for listed defects), 1 = VIOLATION, 2 = ANALYSIS-ERROR/INCONCLUSIVE "
                 "(anchor vanished or shape outside the abstract domain; never presented as a verdict). Genuine defects "
                 "repaired in /repo are the 'fix:' commits listed in known_findings.json.",
    }
    with open(os.path.join(VERIF, "MANIFEST.json"), "w") as f:
        json.dump(man, f, indent=1)
    print(f"MANIFEST.json: {len(checks)} checks, {len(na)} not_applicable")


if __name__ == "__main__":
    main()
