"""IO-effect classification, argparse constant propagation and pruned reachability.

sink_of(fn, call)        classify one call: stdout / stderr / exit / file-write / tempfile / clock / random ...
ArgConst                 constants of `self.args.<dest>` for a ScriptPlan built by run_scriptplan
PrunedReach              call-graph reachability where branches decided by known constants are cut
"""
from __future__ import annotations

import ast
from typing import Optional

from .callgraph import CallGraph
from .cfg import cfg_of
from .model import AnchorMissing, Func, Repo, const_str, dotted, own_nodes


def _kw(call: ast.Call, name: str):
    for k in call.keywords:
        if k.arg == name:
            return k.value
    return None


def _is_true(node) -> bool:
    return isinstance(node, ast.Constant) and node.value is True


def module_of_name(fn: Func, head: str) -> Optional[str]:
    """Dotted module a local name is bound to by an import (module- or function-level)."""
    if head in fn.module.imports:
        mod, attr = fn.module.imports[head]
        return mod if attr is None else f"{mod}.{attr}"
    f = fn
    while f is not None:
        for n in own_nodes(f):
            if isinstance(n, ast.Import):
                for a in n.names:
                    if (a.asname or a.name.split(".")[0]) == head:
                        return a.name
            elif isinstance(n, ast.ImportFrom):
                for a in n.names:
                    if (a.asname or a.name) == head:
                        return f"{n.module}.{a.name}"
        f = f.parent
    return None


def qualified(fn: Func, call: ast.Call) -> Optional[str]:
    """Fully qualified dotted callee name when the head is an imported module/name."""
    d = dotted(call.func)
    if not d:
        return None
    parts = d.split(".")
    m = module_of_name(fn, parts[0])
    if m:
        return ".".join([m] + parts[1:])
    return d


def sink_of(fn: Func, call: ast.Call) -> Optional[tuple]:
    """(kind, detail) or None.  kinds: stdout, stderr, exit, fwrite, fread, mkstemp, mkdtemp, fdopen,
    makedirs, unlink, rmtree, clock, random, pid, environ, listdir, idhash"""
    q = qualified(fn, call) or ""
    last = q.split(".")[-1]
    if q in ("print", "builtins.print"):
        f = _kw(call, "file")
        if f is None:
            return ("stdout", "print")
        d = dotted(f) or ""
        if d.endswith("stderr"):
            return ("stderr", "print")
        if d.endswith("stdout"):
            return ("stdout", "print(file=sys.stdout)")
        return ("fwrite", "print(file=...)")
    if q in ("click.echo", "click.secho", "click.utils.echo", "click.termui.secho"):
        e = _kw(call, "err")
        if e is not None and _is_true(e):
            return ("stderr", q)
        if e is None and _kw(call, "file") is None:
            return ("stdout", q)
        f = _kw(call, "file")
        if f is not None and (dotted(f) or "").endswith("stderr"):
            return ("stderr", q)
        return ("stdout", q + " (err not literally True)")
    if q in ("sys.stdout.write", "sys.stdout.writelines", "sys.stdout.buffer.write", "sys.__stdout__.write"):
        return ("stdout", q)
    if q in ("sys.stderr.write",):
        return ("stderr", q)
    if q in ("sys.exit", "os._exit", "exit", "quit") or (last == "exit" and isinstance(call.func, ast.Attribute)
                                                          and dotted(call.func.value) in ("ctx", "click.get_current_context()")):
        return ("exit", q)
    if q == "open" or q == "io.open" or q == "builtins.open" or q == "codecs.open":
        mode = None
        if len(call.args) > 1:
            mode = const_str(call.args[1])
        if _kw(call, "mode") is not None:
            mode = const_str(_kw(call, "mode"))
        if mode is None and len(call.args) <= 1 and _kw(call, "mode") is None:
            mode = "r"
        if mode is None:
            return ("fwrite", "open(mode=?)")
        if any(c in mode for c in "wax+"):
            return ("fwrite", f"open({mode})")
        return ("fread", f"open({mode})")
    if q in ("tempfile.mkstemp",):
        return ("mkstemp", q)
    if q in ("tempfile.mkdtemp",):
        return ("mkdtemp", q)
    if q in ("tempfile.NamedTemporaryFile", "tempfile.TemporaryFile", "tempfile.TemporaryDirectory", "tempfile.mktemp"):
        return ("fwrite", q)
    if q == "os.fdopen":
        return ("fdopen", q)
    if q in ("os.makedirs", "os.mkdir"):
        return ("makedirs", q)
    if last in ("read_text", "read_bytes") and isinstance(call.func, ast.Attribute):
        return ("fread", "Path." + last)
    if last in ("write_text", "write_bytes", "touch", "mkdir") and isinstance(call.func, ast.Attribute):
        return ("fwrite", "Path." + last)
    if q in ("shutil.copy", "shutil.copyfile", "shutil.copy2", "shutil.move", "os.rename", "os.replace", "shutil.copytree"):
        return ("fwrite", q)
    if q in ("os.unlink", "os.remove") or (last == "unlink" and isinstance(call.func, ast.Attribute)):
        return ("unlink", q)
    if q == "shutil.rmtree":
        return ("rmtree", q)
    if q in ("datetime.datetime.now", "datetime.now", "datetime.datetime.today", "datetime.datetime.utcnow",
             "time.time", "time.monotonic", "time.perf_counter", "datetime.date.today", "time.localtime",
             "time.strftime", "time.time_ns"):
        return ("clock", q)
    if q.startswith("random.") or q.startswith("secrets.") or q in ("uuid.uuid4", "uuid.uuid1", "os.urandom"):
        return ("random", q)
    if q in ("os.getpid", "os.getppid", "threading.get_ident"):
        return ("pid", q)
    if q in ("os.getenv", "os.environ.get") or q.startswith("os.environ"):
        return ("environ", q)
    if q in ("os.listdir", "os.scandir", "glob.glob", "glob.iglob", "os.walk") or last in ("glob", "rglob", "iterdir"):
        return ("listdir", q)
    if q in ("id", "hash"):
        return ("idhash", q)
    return None


class ArgConst:
    """Constants for `self.args.<dest>` of the ScriptPlan instance constructed in run_scriptplan:
    defaults come from create_parser(), overridden by the option strings run_scriptplan passes."""

    def __init__(self, repo: Repo):
        self.repo = repo
        self.defaults: dict = {}      # dest -> ('const', value) | ('given', None)
        self.ok = False
        self.reason = ""
        try:
            self._parser()
            self._given()
            self.ok = True
        except (AnchorMissing, ValueError) as e:
            self.reason = str(e)

    def _parser(self):
        cp = self.repo.func("create_parser", rel="scriptplan/cli/main.py")
        for n in own_nodes(cp):
            if isinstance(n, ast.Call) and isinstance(n.func, ast.Attribute) and n.func.attr == "add_argument":
                opts = [const_str(a) for a in n.args if const_str(a) is not None]
                if not opts:
                    continue
                dest = const_str(_kw(n, "dest")) if _kw(n, "dest") is not None else None
                if dest is None:
                    longs = [o for o in opts if o.startswith("--")]
                    base = (longs[0] if longs else opts[0]).lstrip("-")
                    dest = base.replace("-", "_")
                action = const_str(_kw(n, "action")) if _kw(n, "action") is not None else None
                if action in ("version", "help"):
                    continue
                dflt = _kw(n, "default")
                if action == "store_true":
                    val = False
                elif action == "store_false":
                    val = True
                elif dflt is not None:
                    if not isinstance(dflt, ast.Constant):
                        raise ValueError(f"non-constant default for {dest}")
                    val = dflt.value
                elif _kw(n, "nargs") is not None and const_str(_kw(n, "nargs")) == "*":
                    val = []
                else:
                    val = None
                self.defaults[dest] = {"opts": opts, "value": val}
        if not self.defaults:
            raise ValueError("no add_argument calls found in create_parser")

    def _given(self):
        rs = self.repo.func("run_scriptplan", rel="scriptplan/cli/main.py")
        self.rs = rs
        # the list passed to parse_args
        listvar = None
        for n in own_nodes(rs):
            if isinstance(n, ast.Call) and isinstance(n.func, ast.Attribute) and n.func.attr == "parse_args":
                if len(n.args) == 1 and isinstance(n.args[0], ast.Name):
                    listvar = n.args[0].id
                elif len(n.args) == 1 and isinstance(n.args[0], ast.List):
                    listvar = n.args[0]
                else:
                    raise ValueError("parse_args argument is not a local list")
        if listvar is None:
            raise ValueError("no parse_args call in run_scriptplan")
        strings = []
        unknown = False

        def harvest(lst):
            nonlocal unknown
            if isinstance(lst, ast.IfExp):
                # [a, "--opt", v] if cond else [a]: the strings of either arm may be given
                harvest(lst.body)
                harvest(lst.orelse)
                return
            if isinstance(lst, ast.BinOp) and isinstance(lst.op, ast.Add):
                harvest(lst.left)
                harvest(lst.right)
                return
            if not isinstance(lst, (ast.List, ast.Tuple)):
                unknown = True
                return
            for e in lst.elts:
                s = const_str(e)
                if s is not None:
                    strings.append(s)
                elif isinstance(e, ast.Starred):
                    unknown = True
                else:
                    strings.append(None)       # a value, not an option string (assumed non-option)

        if isinstance(listvar, ast.List):
            harvest(listvar)
        else:
            for n in own_nodes(rs):
                if isinstance(n, ast.Assign) and any(isinstance(t, ast.Name) and t.id == listvar for t in n.targets):
                    harvest(n.value)
                elif isinstance(n, ast.AugAssign) and isinstance(n.target, ast.Name) and n.target.id == listvar:
                    harvest(n.value)
                elif isinstance(n, ast.Call) and isinstance(n.func, ast.Attribute) and isinstance(n.func.value, ast.Name) \
                        and n.func.value.id == listvar:
                    if n.func.attr == "extend" and n.args:
                        harvest(n.args[0])
                    elif n.func.attr == "append" and n.args:
                        s = const_str(n.args[0])
                        strings.append(s)
                    else:
                        unknown = True
        if unknown:
            raise ValueError("argument list of run_scriptplan is not a literal construction")
        self.given = set()
        for s in strings:
            if s is not None and s.startswith("-"):
                hit = [d for d, v in self.defaults.items() if s in v["opts"]]
                if not hit:
                    raise ValueError(f"option {s} not declared in create_parser")
                self.given.update(hit)
        # positional(s): the first non-option element
        for d, v in self.defaults.items():
            if not any(o.startswith("-") for o in v["opts"]):
                self.given.add(d)

    def value(self, dest: str):
        """('const', v) | ('truthy', None) | ('unknown', None)"""
        if not self.ok or dest not in self.defaults:
            return ("unknown", None)
        if dest in self.given:
            return ("truthy", None)      # a non-empty string / list supplied by run_scriptplan
        return ("const", self.defaults[dest]["value"])


def truth(node: ast.AST, lookup) -> Optional[bool]:
    """Three-valued evaluation of a condition; lookup(expr) -> True/False/None for leaves."""
    if isinstance(node, ast.Constant):
        return bool(node.value)
    if isinstance(node, ast.UnaryOp) and isinstance(node.op, ast.Not):
        v = truth(node.operand, lookup)
        return None if v is None else (not v)
    if isinstance(node, ast.BoolOp):
        vals = [truth(v, lookup) for v in node.values]
        if isinstance(node.op, ast.And):
            if any(v is False for v in vals):
                return False
            if all(v is True for v in vals):
                return True
            return None
        if any(v is True for v in vals):
            return True
        if all(v is False for v in vals):
            return False
        return None
    return lookup(node)


class PrunedReach:
    """Reachability from an entry where (a) branches on `self.args.<dest>` in ScriptPlan methods are
    decided by ArgConst, (b) branches on fields that only ever receive falsy constants are decided,
    and call sites in dead regions contribute no edges."""

    def __init__(self, repo: Repo, cg: CallGraph, argc: ArgConst = None, scriptplan_cls: str = "ScriptPlan"):
        self.repo = repo
        self.cg = cg
        self.argc = argc
        self.sp = scriptplan_cls
        self._live: dict = {}
        self._falsy_fields: Optional[dict] = None
        self.pruned_branches: list = []

    # fields that are only ever assigned falsy constants anywhere in the package (setters included,
    # because a property setter is invoked by assignment, which is scanned too)
    def falsy_field(self, cls_name: str, attr: str) -> bool:
        if self._falsy_fields is None:
            self._falsy_fields = {}
        k = (cls_name, attr)
        if k in self._falsy_fields:
            return self._falsy_fields[k]
        ok, seen = True, False
        for fn in self.repo.all_funcs():
            if any(d.endswith(".setter") for d in fn.decorators):
                continue       # accounted for by _setter_unassigned()
            for n in own_nodes(fn):
                tgts = []
                if isinstance(n, ast.Assign):
                    tgts = [(t, n.value) for t in n.targets]
                elif isinstance(n, ast.AnnAssign) and n.value is not None:
                    tgts = [(n.target, n.value)]
                elif isinstance(n, ast.AugAssign):
                    tgts = [(n.target, None)]
                for t, v in tgts:
                    if isinstance(t, ast.Attribute) and t.attr == attr:
                        seen = True
                        if not (isinstance(v, ast.Constant) and not v.value):
                            # `self._log_file = value` inside the setter of the public name counts only if
                            # someone assigns the public name
                            ok = False
                # setattr(obj, "attr", v)
                if isinstance(n, ast.Call) and dotted(n.func) == "setattr" and len(n.args) > 1:
                    on_self = isinstance(n.args[0], ast.Name) and n.args[0].id == "self"
                    other_cls = on_self and fn.cls is not None and fn.cls.name != cls_name
                    if const_str(n.args[1]) in (attr, None) and not other_cls:
                        ok = False
        res = ok and seen
        self._falsy_fields[k] = res
        return res

    def _lookup(self, fn: Func):
        def lk(e: ast.AST) -> Optional[bool]:
            d = dotted(e) if isinstance(e, (ast.Attribute, ast.Name)) else None
            if d and d.startswith("self.args.") and fn.cls is not None and fn.cls.name == self.sp and self.argc:
                kind, v = self.argc.value(d.split(".", 2)[2])
                if kind == "const":
                    return bool(v)
                if kind == "truthy":
                    return True
                return None
            if d and d.startswith("self.") and d.count(".") == 1 and fn.cls is not None:
                attr = d.split(".")[1]
                if self._setter_unassigned(fn, attr) and self.falsy_field(fn.cls.name, attr):
                    return False
            return None
        return lk

    def _setter_unassigned(self, fn: Func, attr: str) -> bool:
        """A private field written by a property setter may become truthy only if somebody assigns
        the public property; find setters writing `attr` from their parameter and check for
        assignments to the property name anywhere."""
        setters = []
        for f in self.repo.all_funcs():
            if f.cls is not None and f.cls.name == fn.cls.name and any(d.endswith(".setter") for d in f.decorators):
                for n in own_nodes(f):
                    if isinstance(n, ast.Assign) and any(isinstance(t, ast.Attribute) and t.attr == attr for t in n.targets):
                        setters.append(f)
        for s in setters:
            pub = s.name
            for f in self.repo.all_funcs():
                for n in own_nodes(f):
                    if isinstance(n, (ast.Assign, ast.AugAssign, ast.AnnAssign)):
                        tg = n.targets if isinstance(n, ast.Assign) else [n.target]
                        for t in tg:
                            if isinstance(t, ast.Attribute) and t.attr == pub:
                                return False
        return True

    def live_nodes(self, fn: Func) -> set:
        """ids of AST statements/expressions (CFG nodes) reachable once decided branches are cut."""
        if fn in self._live:
            return self._live[fn]
        g = cfg_of(fn)
        lk = self._lookup(fn)
        # setter-written private fields: the write `self._x = value` in the setter is not falsy-constant,
        # so falsy_field() must ignore writes inside setters that nobody triggers
        seen = {g.entry.id}
        todo = [g.entry.id]
        while todo:
            a = todo.pop()
            n = g.nodes[a]
            decided = None
            if n.kind in ("if", "while"):
                decided = truth(n.ast, lk)
                if decided is not None:
                    self.pruned_branches.append((fn.qual, n.lineno, decided))
            for (b, l) in g.succ[a]:
                if decided is True and l == "F":
                    continue
                if decided is False and l == "T":
                    continue
                if b not in seen:
                    seen.add(b)
                    todo.append(b)
        self._live[fn] = seen
        return seen

    def _dead_sub(self, fn: Func) -> set:
        """ids of sub-expressions never evaluated because a decided operand short-circuits."""
        lk = self._lookup(fn)
        dead = set()

        def kill(e):
            for x in ast.walk(e):
                dead.add(id(x))

        for n in own_nodes(fn):
            if isinstance(n, ast.BoolOp):
                stop = False
                for v in n.values:
                    if stop:
                        kill(v)
                        continue
                    t = truth(v, lk)
                    if (isinstance(n.op, ast.And) and t is False) or (isinstance(n.op, ast.Or) and t is True):
                        stop = True
            elif isinstance(n, ast.IfExp):
                t = truth(n.test, lk)
                if t is True:
                    kill(n.orelse)
                elif t is False:
                    kill(n.body)
        return dead

    def live_sites(self, fn: Func) -> list:
        """call-graph sites of fn that sit in live CFG nodes."""
        g = cfg_of(fn)
        live = self.live_nodes(fn)
        out = []
        dead = self._dead_sub(fn)
        for (node, tg) in self.cg.sites(fn):
            if id(node) in dead:
                continue
            cn = g.node_containing(node)
            if cn is None or cn.id in live:
                out.append((node, tg))
        return out

    def live_calls(self, fn: Func) -> list:
        g = cfg_of(fn)
        live = self.live_nodes(fn)
        out = []
        dead = self._dead_sub(fn)
        for n in own_nodes(fn):
            if isinstance(n, ast.Call) and id(n) not in dead:
                cn = g.node_containing(n)
                if cn is None or cn.id in live:
                    out.append(n)
        return out

    def reach(self, entry: Func) -> dict:
        """Func -> predecessor Func (None for entry) over live call edges."""
        prev = {entry: None}
        todo = [entry]
        while todo:
            f = todo.pop(0)
            for (_node, tg) in self.live_sites(f):
                for t in tg:
                    if t not in prev:
                        prev[t] = f
                        todo.append(t)
        return prev

    @staticmethod
    def chain(prev: dict, f: Func) -> list:
        out = []
        while f is not None:
            out.append(f.qual)
            f = prev[f]
        return list(reversed(out))
