"""PAIR — static comparison of a compiled fast path (.pyx, typed tree from spverif.pyx) with the
pure-Python fallback it replaces.

Both sides are turned into *decision tables* by symbolic path enumeration over their ASTs (no
execution, no solver): straight-line code is inlined into expressions over the function's inputs,
every branch contributes a signed atomic condition, loops contribute a nested table of their body over
havocked loop-carried variables.  The fast side is "wrapper code before the guarded call + the .pyx body
with parameters bound to the call's arguments + wrapper code after the call"; the fallback side is the rest
of the same Python function.  Tables are compared over the union of their atomic conditions
(propositional enumeration), so a different nesting order of the same tests is not a difference.

Stated normalisations (each is listed in the evidence):
  N1  C casts: <int>(x) = int(x) (truncation), <double>(x) = x; int()/float()/bool()/cast(T, .) around a
      result are dropped when the value already has that type on the other side
  N2  `v = A if c else B` = `if c: v = A else: v = B`;  `P if c else False` = `c and P`
  N3  operands of and/or are compared as sets (conditions are side-effect free)
  N4  `for i in range(len(S)): x = S[i]` = `for x in S`; tuple patterns are projections
  N5  (x - k) % m = (x + ((-k) mod m)) % m for integer constants (floor semantics)
  L1  _total_seconds(d) = d.total_seconds()   (checked separately on the helper's body)
  L2  Scoreboard.idxToDate(i) = startDate + timedelta(seconds=i*resolution) for in-range i
      (checked separately on the fallback's last return)
If the shapes cannot be aligned the comparison is INCONCLUSIVE (exit 2), never a violation.
"""
from __future__ import annotations

import ast
import copy
import itertools
from typing import Optional

from .model import Inconclusive, norm

INT_C = {"int", "long", "short", "Py_ssize_t", "unsigned int", "size_t", "long long"}


def clone(n):
    """Structural copy of an AST (fields only; parent links and positions are not followed)."""
    if isinstance(n, list):
        return [clone(x) for x in n]
    if not isinstance(n, ast.AST):
        return n
    new = n.__class__()
    for f in n._fields:
        if hasattr(n, f):
            setattr(new, f, clone(getattr(n, f)))
    for extra in ("ctype", "cast_to", "cast_from", "cdivision"):
        if hasattr(n, extra):
            setattr(new, extra, getattr(n, extra))
    new.lineno = getattr(n, "lineno", 0)
    new.col_offset = 0
    return new


# ---------------------------------------------------------------------------- rewriting
class _Subst(ast.NodeTransformer):
    def __init__(self, env):
        self.env = env

    def visit_Name(self, n):
        if isinstance(n.ctx, ast.Load) and n.id in self.env:
            return clone(self.env[n.id])
        return n


def subst(e, env):
    if e is None:
        return None
    return _Subst(env).visit(clone(e))


class _Canon(ast.NodeTransformer):
    def __init__(self, lemmas):
        self.lemmas = lemmas

    def visit_Call(self, n):
        self.generic_visit(n)
        f = norm(n.func)
        if f == "__cast__":
            to = getattr(n, "cast_to", "")
            # N8: a cast between C integer types (widening `<long long>idx` of a C int) does not change the value
            if to in INT_C and getattr(n, "cast_from", "") in INT_C:
                return n.args[0]
            if to in INT_C:
                return ast.Call(func=ast.Name(id="int", ctx=ast.Load()), args=n.args, keywords=[])
            return n.args[0]
        if f == "cast" and len(n.args) == 2:
            return n.args[1]
        # N11: sum(f(x) for x in S) in the same normal form as the accumulation loop
        if f == "sum" and len(n.args) == 1 and isinstance(n.args[0], ast.GeneratorExp) and len(n.args[0].generators) == 1 \
                and not n.args[0].generators[0].ifs:
            g = n.args[0].generators[0]
            benv = {}
            Sym(self.lemmas)._bind(g.target, ast.Name(id="ELEMS", ctx=ast.Load()), benv, ())
            term = norm(canon(subst(n.args[0].elt, benv), self.lemmas))
            return ast.Call(func=ast.Name(id="SUM", ctx=ast.Load()),
                            args=[ast.Constant(value=_norm_seq(norm(g.iter))), ast.Constant(value=term)], keywords=[])
        # N6: floor is floor in both worlds: libc floor() on a C double, math.floor() on a Python float; the value is integral, so a
        # following int() / C int cast does not change it (within the int range, which R13.2 treats separately)
        if f in ("math.floor", "floor") and len(n.args) == 1:
            return ast.Call(func=ast.Name(id="floor", ctx=ast.Load()), args=n.args, keywords=[])
        if f == "int" and len(n.args) == 1 and isinstance(n.args[0], ast.Call) and norm(n.args[0].func) == "floor":
            return n.args[0]
        if f in ("float",) and len(n.args) == 1:
            return n.args[0]
        if f == "_total_seconds" and len(n.args) == 1:
            self.lemmas.add("L1")
            return ast.Call(func=ast.Attribute(value=n.args[0], attr="total_seconds", ctx=ast.Load()), args=[], keywords=[])
        if f == "self.idxToDate" and len(n.args) == 1 and "L2" in self.lemmas.enabled:
            self.lemmas.add("L2")
            return ast.BinOp(left=ast.Attribute(value=ast.Name(id="self", ctx=ast.Load()), attr="startDate", ctx=ast.Load()), op=ast.Add(),
                             right=ast.Call(func=ast.Name(id="timedelta", ctx=ast.Load()), args=[],
                                            keywords=[ast.keyword(arg="seconds", value=ast.BinOp(
                                                left=n.args[0], op=ast.Mult(),
                                                right=ast.Attribute(value=ast.Name(id="self", ctx=ast.Load()), attr="resolution", ctx=ast.Load())))]))
        # optimised list.append(self, x) -> append(x)
        if isinstance(n.func, ast.Attribute) and n.args and norm(n.args[0]) == norm(n.func.value):
            n.args = n.args[1:]
        return n

    def visit_BinOp(self, n):
        self.generic_visit(n)
        # N7: on the Python side (no C type, no cdivision) `a // b` is floor(a / b); the compiled side writes floor(a / b) explicitly
        if isinstance(n.op, ast.FloorDiv) and not hasattr(n, "ctype") and not getattr(n, "cdivision", False):
            return ast.Call(func=ast.Name(id="floor", ctx=ast.Load()),
                            args=[ast.BinOp(left=n.left, op=ast.Div(), right=n.right)], keywords=[])
        # N5: (x - k) % m  =  (x + (m - k mod m)) % m   for integer constants, m > 0 (floor semantics; the C side's
        # dividend is shown non-negative by R13.2)
        if isinstance(n.op, ast.Mod) and isinstance(n.right, ast.Constant) and isinstance(n.right.value, int) and n.right.value > 0 \
                and isinstance(n.left, ast.BinOp) and isinstance(n.left.op, (ast.Add, ast.Sub)) \
                and isinstance(n.left.right, ast.Constant) and isinstance(n.left.right.value, int):
            m = n.right.value
            k = n.left.right.value if isinstance(n.left.op, ast.Add) else -n.left.right.value
            n.left = ast.BinOp(left=n.left.left, op=ast.Add(), right=ast.Constant(value=k % m))
        return n

    def visit_Compare(self, n):
        self.generic_visit(n)
        # N9: an identity / equality test between two literals has one answer (`None is None` after a helper's `return None`
        # was bound to the caller's variable)
        if len(n.ops) == 1 and isinstance(n.left, ast.Constant) and isinstance(n.comparators[0], ast.Constant):
            a, b, op = n.left.value, n.comparators[0].value, n.ops[0]
            if a is None or b is None or type(a) is type(b):
                if isinstance(op, (ast.Is, ast.Eq)):
                    return ast.copy_location(ast.Constant(value=(a is b) if (a is None or b is None) else (a == b)), n)
                if isinstance(op, (ast.IsNot, ast.NotEq)):
                    return ast.copy_location(ast.Constant(value=not ((a is b) if (a is None or b is None) else (a == b))), n)
        return n

    def visit_IfExp(self, n):
        self.generic_visit(n)
        if isinstance(n.orelse, ast.Constant) and n.orelse.value is False:
            return ast.BoolOp(op=ast.And(), values=[n.test, n.body])
        return n

    def visit_BoolOp(self, n):
        self.generic_visit(n)
        flat = []
        for v in n.values:
            if isinstance(v, ast.BoolOp) and type(v.op) is type(n.op):
                flat += v.values
            else:
                flat.append(v)
        flat.sort(key=norm)
        n.values = flat
        return n


def order_atom(e):
    """N10: every ordering test is written with `<`:  a >= b  is  not a < b;  a > b  is  b < a;  a <= b  is  not b < a  (total orders:
    integers, minutes, dates -- the compared values of the twins are never NaN).  -> (expression, polarity flipped)"""
    if isinstance(e, ast.Compare) and len(e.ops) == 1 and isinstance(e.ops[0], (ast.GtE, ast.Gt, ast.LtE)):
        a, b = e.left, e.comparators[0]
        if isinstance(e.ops[0], ast.GtE):
            return ast.copy_location(ast.Compare(left=a, ops=[ast.Lt()], comparators=[b]), e), True
        if isinstance(e.ops[0], ast.Gt):
            return ast.copy_location(ast.Compare(left=b, ops=[ast.Lt()], comparators=[a]), e), False
        return ast.copy_location(ast.Compare(left=b, ops=[ast.Lt()], comparators=[a]), e), True
    return e, False


class Lemmas:
    def __init__(self, enabled=()):
        self.enabled = set(enabled)
        self.used = set()

    def add(self, x):
        self.used.add(x)


def canon(e, lemmas) -> ast.AST:
    if e is None:
        return None
    out = _Canon(lemmas).visit(clone(e))
    ast.fix_missing_locations(out)
    return out


def strip_result_wrappers(e):
    """int(x) / float(x) / bool(x) around a whole result (N1)."""
    while isinstance(e, ast.Call) and norm(e.func) in ("int", "float", "bool") and len(e.args) == 1 and not e.keywords:
        e = e.args[0]
    return e


# ---------------------------------------------------------------------------- symbolic execution
class Path:
    __slots__ = ("conds", "events", "outcome", "env")

    def __init__(self, conds, events, outcome, env):
        self.conds = conds          # tuple of (text, bool)
        self.events = events        # tuple of texts (effects in order)
        self.outcome = outcome      # ('return', text) | ('raise', text) | ('fall', None) | ('break',)/('continue',)
        self.env = env


class Sym:
    def __init__(self, lemmas: Lemmas, callee=None, call_pred=None, depth=0, strip=True):
        """callee: (PyxFunc, name) to inline when call_pred(call) matches."""
        self.strip = strip
        self.lemmas = lemmas
        self.callee = callee
        self.call_pred = call_pred
        self.depth = depth
        self.loop_no = 0
        self.loop_ids = {}

    # ---- helpers
    def ev(self, e, env):
        return canon(subst(e, env), self.lemmas)

    def text(self, e, env):
        return norm(self.ev(e, env))

    def known(self, text, conds):
        for (t, p) in conds:
            if t == text:
                return p
        return None

    def truth(self, e, conds):
        """three-valued truth of (canonical) condition e given literals on the path"""
        e_, flip = order_atom(e)
        k = self.known(norm(e_), conds)
        if k is not None:
            return k != flip
        if isinstance(e, ast.Constant):
            return bool(e.value)
        if isinstance(e, ast.UnaryOp) and isinstance(e.op, ast.Not):
            v = self.truth(e.operand, conds)
            return None if v is None else (not v)
        if isinstance(e, ast.BoolOp):
            vals = [self.truth(v, conds) for v in e.values]
            if isinstance(e.op, ast.And):
                if any(v is False for v in vals):
                    return False
                if all(v is True for v in vals):
                    return True
            else:
                if any(v is True for v in vals):
                    return True
                if all(v is False for v in vals):
                    return False
        return None

    def atoms_of(self, e):
        """atomic sub-conditions of a canonical boolean expression"""
        if isinstance(e, ast.UnaryOp) and isinstance(e.op, ast.Not):
            return self.atoms_of(e.operand)
        if isinstance(e, ast.BoolOp):
            out = []
            for v in e.values:
                out += self.atoms_of(v)
            return out
        return [e]

    # ---- statements
    def run(self, stmts, env, conds=(), events=()) -> list:
        if not stmts:
            return [Path(conds, events, ("fall", None), env)]
        st, rest = stmts[0], stmts[1:]
        out = []
        for p in self.step(st, env, conds, events):
            if p.outcome[0] == "fall":
                out += self.run(rest, p.env, p.conds, p.events)
            else:
                out.append(p)
        if len(out) > 4000:
            raise Inconclusive("path explosion in pair comparison")
        return out

    def step(self, st, env, conds, events) -> list:
        env = dict(env)
        if isinstance(st, (ast.Pass, ast.Import, ast.ImportFrom)):
            return [Path(conds, events, ("fall", None), env)]
        if isinstance(st, ast.Expr):
            if isinstance(st.value, ast.Constant):
                return [Path(conds, events, ("fall", None), env)]
            return self._with_call(st.value, env, conds, events, lambda v, e2, c2, ev2: [
                Path(c2, ev2 + (("effect", norm(v)),), ("fall", None), e2)])
        if isinstance(st, (ast.Assign, ast.AnnAssign)):
            if getattr(st, "value", None) is None:
                return [Path(conds, events, ("fall", None), env)]
            tgt = st.targets[0] if isinstance(st, ast.Assign) else st.target

            def cont(v, e2, c2, ev2):
                e2 = dict(e2)
                self._bind(tgt, v, e2, ev2)
                if isinstance(tgt, (ast.Subscript, ast.Attribute)):
                    ev2 = ev2 + (("store", norm(self.ev(tgt, e2)) + " = " + norm(v)),)
                return [Path(c2, ev2, ("fall", None), e2)]
            return self._with_call(st.value, env, conds, events, cont)
        if isinstance(st, ast.AugAssign):
            left = clone(st.target)
            for x in ast.walk(left):
                if hasattr(x, "ctx"):
                    x.ctx = ast.Load()
            v = self.ev(ast.BinOp(left=left, op=st.op, right=st.value), env)
            if isinstance(st.target, ast.Name):
                env[st.target.id] = v
                return [Path(conds, events, ("fall", None), env)]
            return [Path(conds, events + (("store", norm(self.ev(st.target, env)) + " = " + norm(v)),), ("fall", None), env)]
        if isinstance(st, ast.Return):
            if st.value is None:
                return [Path(conds, events, ("return", "None"), env)]
            # N12: `return any(E for x in S)` is the search loop `for x in S: if E: return True` followed by `return False`
            #      (`all` dually); a filter of the generator is a conjunct of the test
            v_ = st.value
            if isinstance(v_, ast.Call) and isinstance(v_.func, ast.Name) and v_.func.id in ("any", "all") and len(v_.args) == 1 \
                    and isinstance(v_.args[0], (ast.GeneratorExp, ast.ListComp)) and len(v_.args[0].generators) == 1 and not v_.keywords:
                if getattr(st, "_search_loop", None) is not None:          # one loop object per return statement: loop ordinals stay stable
                    return self.run(list(st._search_loop), env, conds, events)
                g_ = v_.args[0].generators[0]
                test = v_.args[0].elt if v_.func.id == "any" else ast.UnaryOp(op=ast.Not(), operand=v_.args[0].elt)
                hit = ast.If(test=test, body=[ast.Return(value=ast.Constant(value=v_.func.id == "any"))], orelse=[])
                body_ = [hit]
                if g_.ifs:
                    cond_ = g_.ifs[0] if len(g_.ifs) == 1 else ast.BoolOp(op=ast.And(), values=list(g_.ifs))
                    body_ = [ast.If(test=cond_, body=[hit], orelse=[])]
                loop = ast.For(target=g_.target, iter=g_.iter, body=body_, orelse=[])
                tail = ast.Return(value=ast.Constant(value=v_.func.id != "any"))
                for n_ in (loop, tail):
                    ast.copy_location(n_, st)
                    ast.fix_missing_locations(n_)
                st._search_loop = (loop, tail)
                return self.run([loop, tail], env, conds, events)
            return self._with_call(st.value, env, conds, events, lambda v, e2, c2, ev2: [
                Path(c2, ev2, ("return", norm(strip_result_wrappers(v) if self.strip else v)), e2)])
        if isinstance(st, ast.Raise):
            cls = norm(st.exc.func) if isinstance(st.exc, ast.Call) else (norm(st.exc) if st.exc is not None else "reraise")
            return [Path(conds, events, ("raise", cls), env)]
        if isinstance(st, ast.Break):
            return [Path(conds, events, ("break", None), env)]
        if isinstance(st, ast.Continue):
            return [Path(conds, events, ("continue", None), env)]
        if isinstance(st, ast.If):
            # N2: both branches assign the same single name -> conditional expression
            if len(st.body) == 1 and len(st.orelse) == 1 and isinstance(st.body[0], ast.Assign) and isinstance(st.orelse[0], ast.Assign) \
                    and isinstance(st.body[0].targets[0], ast.Name) and norm(st.body[0].targets[0]) == norm(st.orelse[0].targets[0]):
                v = ast.IfExp(test=st.test, body=st.body[0].value, orelse=st.orelse[0].value)
                return self.step(ast.Assign(targets=[st.body[0].targets[0]], value=v), env, conds, events)
            c = self.ev(st.test, env)
            t = self.truth(c, conds)
            out = []
            if t is not False:
                out += self._branch(c, True, st.body, env, conds, events)
            if t is not True:
                out += self._branch(c, False, st.orelse, env, conds, events)
            return out
        if isinstance(st, ast.For):
            return self._for(st, env, conds, events)
        if isinstance(st, ast.While):
            return self._while(st, env, conds, events)
        if isinstance(st, ast.Try):
            body = self.run(st.body, env, conds, events)
            # handlers: recorded as an event with their own table (same structure expected on both sides)
            hs = []
            for h in st.handlers:
                ht = self.table(self.run(h.body, env, (), ()))
                hs.append((norm(h.type) if h.type is not None else "*", ht))
            out = []
            for p in body:
                out.append(Path(p.conds, p.events + (("try", tuple(hs)),), p.outcome, self._merge_handler_env(p.env, st, env)))
            return out
        raise Inconclusive(f"statement kind {type(st).__name__} is outside the pair comparison")

    def _merge_handler_env(self, env_body, st, env0):
        """variables assigned in handlers get a value that names both alternatives"""
        env = dict(env_body)
        for h in st.handlers:
            for s in h.body:
                if isinstance(s, ast.Assign) and isinstance(s.targets[0], ast.Name):
                    nm = s.targets[0].id
                    alt = self.ev(s.value, env0)
                    if nm in env and norm(env[nm]) != norm(alt):
                        env[nm] = ast.Call(func=ast.Name(id="__or_on_" + (norm(h.type) if h.type is not None else "exc") + "__", ctx=ast.Load()),
                                           args=[env[nm], alt], keywords=[])
        return env

    def cases(self, c, pol) -> list:
        """Decompose `c is pol` into alternatives of atomic literals (short-circuit order)."""
        if isinstance(c, ast.UnaryOp) and isinstance(c.op, ast.Not):
            return self.cases(c.operand, not pol)
        if isinstance(c, ast.BoolOp):
            conj = isinstance(c.op, ast.And)
            if conj == pol:
                # all operands must be `pol`
                alts = [[]]
                for v in c.values:
                    alts = [a + b for a in alts for b in self.cases(v, pol)]
                return alts
            # some operand is `pol` : first such operand, the earlier ones are `not pol`
            alts = []
            prefix = [[]]
            for v in c.values:
                for pre in prefix:
                    for b in self.cases(v, pol):
                        alts.append(pre + b)
                prefix = [pre + b for pre in prefix for b in self.cases(v, not pol)]
            return alts
        if isinstance(c, ast.Constant):
            return [[]] if bool(c.value) == pol else []
        return [[self._lit(c, pol)]]

    def _branch(self, c, pol, body, env, conds, events):
        out = []
        for alt in self.cases(c, pol):
            lits = list(conds) + alt
            seen, bad = {}, False
            for (t, p) in lits:
                if t in seen and seen[t] != p:
                    bad = True
                    break
                seen[t] = p
            if bad or not consistent(seen):
                continue
            out += self.run(body, env, tuple(dict.fromkeys(lits)), events)
        return out

    def _lit(self, e, pol):
        while isinstance(e, ast.UnaryOp) and isinstance(e.op, ast.Not):
            e, pol = e.operand, not pol
        e, flip = order_atom(e)
        return (norm(e), pol != flip)

    def _bind(self, tgt, v, env, events):
        if isinstance(tgt, ast.Name):
            env[tgt.id] = v
        elif isinstance(tgt, (ast.Tuple, ast.List)):
            for i, el in enumerate(tgt.elts):
                if isinstance(v, (ast.Tuple, ast.List)) and len(v.elts) == len(tgt.elts):
                    self._bind(el, v.elts[i], env, events)
                else:
                    self._bind(el, ast.Subscript(value=v, slice=ast.Constant(value=i), ctx=ast.Load()), env, events)

    def _with_call(self, expr, env, conds, events, cont):
        """Evaluate expr; if it contains the guarded fast call, inline the callee's table."""
        target = None
        if self.callee is not None:
            for n in ast.walk(expr):
                if isinstance(n, ast.Call) and self.call_pred(n):
                    target = n
                    break
        if target is None:
            return cont(self.ev(expr, env), env, conds, events)
        fn, _nm = self.callee
        params = [a.arg for a in fn.node.args.args]
        if len(target.args) != len(params):
            raise Inconclusive(f"call of {fn.name} passes {len(target.args)} arguments, the .pyx function takes {len(params)}")
        cenv = {p: self.ev(a, env) for p, a in zip(params, target.args)}
        sub = Sym(self.lemmas, depth=self.depth + 1, strip=False)
        out = []
        for p in sub.run(fn.node.body, cenv, conds, events):
            if p.outcome[0] == "return":
                val = ast.parse(p.outcome[1], mode="eval").body
            elif p.outcome[0] == "fall":
                val = ast.Constant(value=None)
            else:
                out.append(Path(p.conds, p.events, p.outcome, env))
                continue
            marker = "__fastcall_result__"
            e2 = dict(env)
            e2[marker] = val

            class R(ast.NodeTransformer):
                def visit_Call(self_inner, n):
                    if n is target_copy:
                        return ast.Name(id=marker, ctx=ast.Load())
                    return self_inner.generic_visit(n)
            ex = clone(expr)
            # locate the copied call by position
            target_copy = None
            for a, b in zip(ast.walk(expr), ast.walk(ex)):
                if a is target:
                    target_copy = b
            ex = R().visit(ex)
            out += cont(self.ev(ex, e2), e2, p.conds, p.events)
        return out

    # ---- loops
    def _carried(self, body) -> list:
        names = []
        for s in body:
            for n in ast.walk(s):
                if isinstance(n, (ast.Assign, ast.AugAssign)):
                    for t in (n.targets if isinstance(n, ast.Assign) else [n.target]):
                        for x in ast.walk(t):
                            if isinstance(x, ast.Name) and isinstance(x.ctx, ast.Store) and x.id not in names:
                                names.append(x.id)
        return names

    def _ordinal(self, st):
        self.loop_ids.setdefault(id(st), len(self.loop_ids) + 1)
        return self.loop_ids[id(st)]

    def _for(self, st, env, conds, events):
        self.loop_no = self._ordinal(st)
        el = ast.Name(id=f"ELEM{self.loop_no}", ctx=ast.Load())
        benv = dict(env)
        seq = st.iter
        body = list(st.body)
        # N4: for i in range(len(S)): x = S[i]
        if isinstance(seq, ast.Call) and norm(seq.func) == "range" and len(seq.args) == 1 and isinstance(seq.args[0], ast.Call) \
                and norm(seq.args[0].func) == "len" and isinstance(st.target, ast.Name):
            S = seq.args[0].args[0]
            seq_c = self.ev(S, env)
            idx = st.target.id

            class IdxToEl(ast.NodeTransformer):
                def visit_Subscript(self_inner, n):
                    n = self_inner.generic_visit(n)
                    if isinstance(n.slice, ast.Name) and n.slice.id == idx and norm(n.value) == norm(S):
                        return clone(el)
                    return n
            body = [IdxToEl().visit(clone(s)) for s in body]
            for s in body:
                ast.fix_missing_locations(s)
        else:
            seq_c = self.ev(seq, env)
            self._bind(st.target, el, benv, ())
        carried = [c for c in self._carried(body)]
        havoc = {c: ast.Name(id=f"LOOPVAR_{c}", ctx=ast.Load()) for c in carried if c in env}
        benv.update(havoc)
        sub = Sym(self.lemmas, self.callee, self.call_pred, self.depth + 1)
        sub.loop_ids = self.loop_ids
        paths = sub.run(body, benv, (), ())
        table = self.table(paths, effects_for=[c for c in carried if c in env], loop_body=True)
        env2 = dict(env)
        for c in carried:
            env2[c] = ast.Name(id=f"AFTERLOOP{self.loop_no}_{c}", ctx=ast.Load())
        # N11: `acc = a; for x in S: acc += f(x)`  is  `acc = a + sum(f(x) for x in S)`: one unconditional path, no event, and the
        # only loop-carried effect is acc := acc + E with E free of loop-carried values
        if len(paths) == 1 and not paths[0].conds and not paths[0].events and paths[0].outcome[0] == "fall":
            live = [c for c in carried if c in env and norm(paths[0].env.get(c)) != f"LOOPVAR_{c}"]
            if len(live) == 1:
                c = live[0]
                v = paths[0].env[c]
                if isinstance(v, ast.BinOp) and isinstance(v.op, ast.Add) and norm(v.left) == f"LOOPVAR_{c}" and "LOOPVAR_" not in norm(v.right):
                    term = norm(v.right).replace(f"ELEM{self.loop_no}", "ELEMS")
                    total = ast.Call(func=ast.Name(id="SUM", ctx=ast.Load()),
                                     args=[ast.Constant(value=_norm_seq(norm(seq_c))), ast.Constant(value=term)], keywords=[])
                    init = env[c]
                    env3 = dict(env)
                    for c2 in carried:
                        if c2 != c:
                            env3[c2] = ast.Name(id=f"AFTERLOOP{self.loop_no}_{c2}", ctx=ast.Load())
                    env3[c] = total if (isinstance(init, ast.Constant) and init.value == 0) else ast.BinOp(left=init, op=ast.Add(), right=total)
                    return [Path(conds, events, ("fall", None), env3)]
        ev = events + (("for", norm(seq_c), table),)
        out = []
        # returns inside the loop body leave the function: summarised inside the table; after the loop we fall through
        out.append(Path(conds, ev, ("fall", None), env2))
        return out

    def _while(self, st, env, conds, events):
        self.loop_no = self._ordinal(st)
        carried = self._carried(st.body)
        benv = dict(env)
        for c in carried:
            if c in env:
                benv[c] = ast.Name(id=f"LOOPVAR_{c}", ctx=ast.Load())
        test = self.ev(st.test, benv)
        sub = Sym(self.lemmas, self.callee, self.call_pred, self.depth + 1)
        sub.loop_ids = self.loop_ids
        paths = sub.run(list(st.body), benv, (), ())
        table = self.table(paths, effects_for=[c for c in carried if c in env], loop_body=True)
        inits = tuple((c, norm(env[c])) for c in carried if c in env)
        env2 = dict(env)
        for c in carried:
            env2[c] = ast.Name(id=f"AFTERLOOP{self.loop_no}_{c}", ctx=ast.Load())
        ev = events + (("while", norm(test), inits, table),)
        return [Path(conds, ev, ("fall", None), env2)]

    # ---- tables
    def table(self, paths, effects_for=(), loop_body=False):
        rows = set()
        # a variable is loop-carried only if its value from the previous iteration is read somewhere
        blob = " ".join(str((p.conds, p.events, p.outcome, [norm(v) for v in p.env.values()])) for p in paths)
        effects_for = [c for c in effects_for if f"LOOPVAR_{c}" in blob]
        for p in paths:
            eff = tuple((c, norm(p.env[c])) for c in effects_for if c in p.env and norm(p.env[c]) != f"LOOPVAR_{c}")
            # in a loop body `continue` and reaching the end of the body are the same thing: on to the next element
            outcome = ("fall", None) if (loop_body and p.outcome[0] == "continue") else p.outcome
            rows.add((frozenset(p.conds), p.events, outcome, eff))
        return frozenset(rows)


# ---------------------------------------------------------------------------- comparison
def consistent(assign: dict) -> bool:
    """Cheap propositional + None/ordering sanity of a set of signed atoms (stated relations:
    `E is None` excludes E being truthy; `v < 0` excludes `v >= n` for a size n >= 1)."""
    for t, p in assign.items():
        if t.endswith(" is None") and p:
            base = t[: -len(" is None")]
            if assign.get(base) is True:
                return False
        if t.endswith(" is not None") and not p:
            base = t[: -len(" is not None")]
            if assign.get(base) is True:
                return False
        if p and ".get(" in t and t.endswith(")") and t.count("(") >= 1:
            # D.get(K) truthy  =>  K in D
            d_, k_ = t[: t.index(".get(")], t[t.index(".get(") + 5: -1]
            if assign.get(f"{k_} in {d_}") is False or assign.get(f"{k_} not in {d_}") is True:
                return False
        if t.endswith(" < 0") and p:
            v = t[: -len(" < 0")]
            for t2, p2 in assign.items():
                if p2 and t2.startswith(v + " >= "):
                    return False
                if (not p2) and t2.startswith(v + " < ") and t2 != t:
                    return False          # v < 0 and v >= n for a size n
        # a < b and b < a exclude each other
        if p and " < " in t and t.count(" < ") == 1:
            a_, b_ = t.split(" < ")
            if assign.get(f"{b_} < {a_}") is True:
                return False
    return True


def _merge(ca, cb) -> Optional[dict]:
    d = dict(ca)
    for (t, p) in cb:
        if t in d and d[t] != p:
            return None
        d[t] = p
    return d if consistent(d) else None


def _drop_empty_loops(events, assign):
    out = []
    for e in events:
        if e[0] == "for":
            seq = e[1]
            empty = False
            for t, p in assign.items():
                if (not p) and ".get(" in t and t.endswith(")"):
                    d_, k_ = t[: t.index(".get(")], t[t.index(".get(") + 5: -1]
                    if seq == f"{d_}[{k_}]":
                        empty = True          # D.get(K) falsy: D[K] is missing or empty, the loop body never runs
                if (not p) and t == seq:
                    empty = True              # the sequence itself is falsy (empty)
            # `D.get(K) or []`: empty when D.get(K) is falsy or K is not in D
            core = seq[:-len(" or []")] if seq.endswith(" or []") else (seq[len("[] or "):] if seq.startswith("[] or ") else None)
            if core is not None and ".get(" in core and core.endswith(")"):
                d_, k_ = core[: core.index(".get(")], core[core.index(".get(") + 5: -1]
                if assign.get(core) is False or assign.get(f"{k_} not in {d_}") is True or assign.get(f"{k_} in {d_}") is False \
                        or assign.get(f"{d_}[{k_}]") is False:
                    empty = True
            if empty:
                continue
        out.append(e)
    return tuple(out)


def _norm_seq(seq: str) -> str:
    """`D.get(K) or []` iterates exactly what `D[K]` iterates whenever it iterates anything."""
    core = seq[:-len(" or []")] if seq.endswith(" or []") else (seq[len("[] or "):] if seq.startswith("[] or ") else None)
    if core is None and ".get(" in seq and seq.endswith(")"):
        try:
            e_ = ast.parse(seq, mode="eval").body
        except SyntaxError:
            e_ = None
        if isinstance(e_, ast.Call) and isinstance(e_.func, ast.Attribute) and e_.func.attr == "get" and len(e_.args) == 1 and not e_.keywords:
            return f"{norm(e_.func.value)}[{norm(e_.args[0])}]"       # iterating D.get(K) itself: whenever that iterates anything it is D[K]
    if core is not None and ".get(" in core and core.endswith(")"):
        d_, k_ = core[: core.index(".get(")], core[core.index(".get(") + 5: -1]
        return f"{d_}[{k_}]"
    return seq


def _events_equal(ea, eb, assign=None) -> bool:
    if assign:
        ea, eb = _drop_empty_loops(ea, assign), _drop_empty_loops(eb, assign)
    if len(ea) != len(eb):
        return False
    for x, y in zip(ea, eb):
        if x[0] != y[0]:
            if {x[0], y[0]} == {"for", "while"}:
                _UNALIGNED.append((_ev_text(x)[:80], _ev_text(y)[:80]))
            return False
        if x[0] in ("for", "while"):
            if x[0] == "for":
                x = (x[0], _norm_seq(x[1])) + tuple(x[2:])
                y = (y[0], _norm_seq(y[1])) + tuple(y[2:])
            if x[1:-1] != y[1:-1]:
                return False
            eq, _d = compare_tables(x[-1], y[-1])
            if not eq:
                return False
        elif x[0] == "try":
            if len(x[1]) != len(y[1]):
                return False
            for (ta, tba), (tb, tbb) in zip(x[1], y[1]):
                if ta != tb or not compare_tables(tba, tbb)[0]:
                    return False
        elif x != y:
            return False
    return True


_UNALIGNED: list = []
_DEPTH = [0]


def compare_tables(a: frozenset, b: frozenset):
    """Top-level entry: a difference that rests on a `for` loop on one side and a `while` loop on the other is not a difference the
    tables can show -- the two loop forms are summarised differently -- so it is reported as undecided, not as a disagreement."""
    if _DEPTH[0] == 0:
        del _UNALIGNED[:]
    _DEPTH[0] += 1
    try:
        eq, detail = _compare_tables(a, b)
    finally:
        _DEPTH[0] -= 1
    if _DEPTH[0] == 0 and not eq and _UNALIGNED:
        raise Inconclusive(f"the two implementations walk the same range with different loop forms ({_UNALIGNED[0][0]} / {_UNALIGNED[0][1]}): "
                           "their decision tables cannot be aligned, equivalence is not established")
    return eq, detail


def _compare_tables(a: frozenset, b: frozenset):
    """Both tables are complete decision trees over atomic literals; they are equivalent iff every pair of
    mutually consistent rows agrees on (events, outcome, effects).
    Returns (equal, detail | list of differences)."""
    if a == b:
        return True, "tables identical"
    diffs = []
    pairs = 0
    for ra in sorted(a, key=str):
        for rb in sorted(b, key=str):
            m = _merge(ra[0], rb[0])
            if m is None:
                continue
            pairs += 1
            if ra[2] != rb[2] or ra[3] != rb[3] or not _events_equal(ra[1], rb[1], m):
                diffs.append((m, {(ra[1], ra[2], ra[3])}, {(rb[1], rb[2], rb[3])}))
                if len(diffs) >= 3:
                    return False, diffs
    if diffs:
        return False, diffs
    if pairs == 0:
        raise Inconclusive("no pair of rows is mutually consistent: the two sides do not share any condition")
    return True, f"{pairs} mutually consistent row pairs of a {len(a)}-row and a {len(b)}-row decision table agree"


def describe_diff(diffs) -> str:
    assign, ra, rb = diffs[0]
    lits = ", ".join(f"{'' if v else 'not '}{k}" for k, v in assign.items())

    def show(rs):
        out = []
        for (events, outcome, eff) in sorted(rs, key=str)[:2]:
            s = f"{outcome[0]} {outcome[1]}" if outcome[1] is not None else outcome[0]
            if eff:
                s += " " + "; ".join(f"{k}:={v}" for k, v in eff)
            if events:
                s += " after " + "; ".join(_ev_text(e) for e in events)[:160]
            out.append(s)
        return " | ".join(out) or "no path"
    return f"when [{lits}]: fast path -> {show(ra)} ; fallback -> {show(rb)}"


def _ev_text(e):
    if e[0] in ("effect", "store"):
        return e[1]
    if e[0] == "for":
        return f"for-loop over {e[1]}"
    if e[0] == "while":
        return f"while {e[1]}"
    return e[0]
