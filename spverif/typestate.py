"""Typestate of temporary filesystem resources (mkstemp / mkdtemp and functions returning them)
over normal, exceptional and BaseException-only edges of the CFG.

A resource is acquired at a statement, owned through a set of alias variables, and must be
released (unlink / remove / rmtree on an alias) or handed to the caller (returned) on every
path to: a normal return, a process exit call, or an exception leaving the function.
"""
from __future__ import annotations

import ast
from typing import Optional

from .cfg import build_cfg, Node
from .effects import sink_of, PrunedReach
from .model import Func, dotted, norm, own_nodes

PATH_WRAPPERS = {"Path", "str", "PurePath", "pathlib.Path", "os.fspath", "os.path.abspath"}


def names_in(e: ast.AST) -> set:
    return {n.id for n in ast.walk(e) if isinstance(n, ast.Name)}


def cannot_raise(st: ast.AST) -> bool:
    """Documented allow-list (DESIGN A.3): plain moves and Path()/str() wrapping of a name."""
    if isinstance(st, (ast.Assign, ast.AnnAssign)):
        v = st.value
        if v is None:
            return True
        if isinstance(v, (ast.Name, ast.Constant)):
            return True
        if isinstance(v, ast.Tuple) and all(isinstance(x, (ast.Name, ast.Constant)) for x in v.elts):
            return True
        if isinstance(v, ast.Call) and dotted(v.func) in PATH_WRAPPERS and not v.keywords \
                and all(isinstance(a, (ast.Name, ast.Constant)) for a in v.args):
            return True
    if isinstance(st, (ast.Pass, ast.Break, ast.Continue, ast.Global, ast.Nonlocal)):
        return True
    return False


class Leak:
    def __init__(self, res_node: Node, res_desc: str, end_kind: str, end_node: Node, via: Optional[Node], path: list):
        self.res_node = res_node
        self.res_desc = res_desc
        self.end_kind = end_kind      # 'return', 'exit-call', 'exception', 'base-exception'
        self.end_node = end_node
        self.via = via                # the node whose exceptional edge was taken (if any)
        self.path = path


class TempTypestate:
    def __init__(self, fn: Func, ctx, pr: PrunedReach, sysexit_reach, class_table: dict):
        """sysexit_reach(fn, call) -> chain|None : can this call raise SystemExit out of its callee."""
        self.fn = fn
        self.ctx = ctx
        self.pr = pr
        self.sysexit_reach = sysexit_reach
        self.g = build_cfg(fn, exc_everywhere=True, class_table=class_table)
        self.acq: dict = {}      # node id -> (desc, alias names)
        self.leaks: list[Leak] = []
        self.released_paths = 0
        self.states_explored = 0
        self._find_acquisitions()

    # ---------------------------------------------------------------- acquisition sites
    def _acquiring_call(self, call: ast.Call) -> Optional[str]:
        s = sink_of(self.fn, call)
        if s and s[0] in ("mkstemp", "mkdtemp"):
            return s[1]
        for tg in self.ctx.cg.resolve_call(self.fn, call):
            from .dep import data
            ret = data(self.ctx.dep.summary(tg).ret)
            if "call:mkstemp" in ret or "call:mkdtemp" in ret:
                return f"{tg.qual}() [returns a temp resource]"
        return None

    def _find_acquisitions(self):
        for n in self.g.nodes:
            if n.kind != "stmt" or not isinstance(n.ast, (ast.Assign, ast.AnnAssign, ast.Expr, ast.Return)):
                continue
            val = n.ast.value
            if val is None:
                continue
            for c in ast.walk(val):
                if isinstance(c, ast.Call):
                    d = self._acquiring_call(c)
                    if d:
                        if isinstance(n.ast, ast.Return):
                            continue      # created and handed out in one step
                        tg = n.ast.targets if isinstance(n.ast, ast.Assign) else ([n.ast.target] if isinstance(n.ast, ast.AnnAssign) else [])
                        al = set()
                        for t in tg:
                            al |= {x.id for x in ast.walk(t) if isinstance(x, ast.Name)}
                        self.acq[n.id] = (d, frozenset(al))
                        break

    # ---------------------------------------------------------------- transfer
    def _release_in(self, st: ast.AST, aliases: frozenset) -> bool:
        for c in ast.walk(st):
            if isinstance(c, ast.Call):
                s = sink_of(self.fn, c)
                if s and s[0] in ("unlink", "rmtree"):
                    tgt = names_in(c)
                    if tgt & aliases:
                        return True
        return False

    def _step(self, n: Node, state: frozenset) -> frozenset:
        st = n.ast
        new = set()
        for (rid, aliases) in state:
            released = False
            if n.kind == "if":
                ifst = getattr(n, "stmt", None)
                if ifst is not None and (names_in(n.ast) & aliases) and any(self._release_in(b, aliases) for b in ifst.body):
                    released = True
            elif n.kind in ("stmt", "with") and st is not None and not isinstance(st, (ast.FunctionDef, ast.ClassDef)):
                if self._release_in(st, aliases):
                    released = True
            if released:
                continue
            al = set(aliases)
            if n.kind == "stmt" and isinstance(st, (ast.Assign, ast.AnnAssign)) and getattr(st, "value", None) is not None:
                tg = st.targets if isinstance(st, ast.Assign) else [st.target]
                tnames = set()
                for t in tg:
                    if isinstance(t, ast.Name):
                        tnames.add(t.id)
                    elif isinstance(t, (ast.Tuple, ast.List)):
                        tnames |= {x.id for x in t.elts if isinstance(x, ast.Name)}
                if names_in(st.value) & al and n.id not in self.acq:
                    al |= tnames
                else:
                    al -= tnames
            new.add((rid, frozenset(al)))
        if n.id in self.acq:
            new.add((n.id, self.acq[n.id][1]))
        return frozenset(new)

    def _is_exit_call(self, n: Node) -> bool:
        if n.ast is None or n.kind not in ("stmt",):
            return False
        for c in ast.walk(n.ast):
            if isinstance(c, ast.Call):
                s = sink_of(self.fn, c)
                if s and s[0] == "exit":
                    return True
        return False

    def _systemexit_calls(self, n: Node) -> list:
        out = []
        if n.ast is None or n.kind in ("except", "join", "entry", "exit", "raise"):
            return out
        root = n.ast if n.kind != "for" else n.ast.iter
        if n.kind == "with":
            nodes = []
            for it in n.ast.items:
                nodes += list(ast.walk(it.context_expr))
        else:
            nodes = list(ast.walk(root)) if not isinstance(root, (ast.FunctionDef, ast.ClassDef)) else []
        for c in nodes:
            if isinstance(c, ast.Call):
                ch = self.sysexit_reach(self.fn, c)
                if ch:
                    out.append((c, ch))
        return out

    # ---------------------------------------------------------------- exploration
    def run(self):
        g = self.g
        live = self.pr.live_nodes(self.fn) if self.pr else None
        start = (g.entry.id, frozenset())
        seen = {start}
        stack = [(g.entry.id, frozenset(), ())]
        reported = set()
        while stack:
            nid, state, path = stack.pop()
            self.states_explored += 1
            n = g.nodes[nid]
            if n is g.exit:
                for (rid, al) in state:
                    self._leak(rid, "return", n, None, path, reported)
                continue
            if n is g.raise_:
                continue
            # return statement hands ownership to the caller
            post = self._step(n, state)
            if n.kind == "stmt" and isinstance(n.ast, ast.Return) and n.ast.value is not None:
                rn = names_in(n.ast.value)
                post = frozenset((rid, al) for (rid, al) in post if not (al & rn))
            if self._is_exit_call(n):
                for (rid, al) in post:
                    self._leak(rid, "exit-call", n, None, path, reported)
                continue
            sysx = self._systemexit_calls(n) if state else []
            for (b, l) in g.succ[nid]:
                bn = g.nodes[b]
                if l in ("exc", "excb"):
                    if n.in_handler and not (l == "excb" and sysx):
                        continue                       # double faults inside handlers: out of scope
                    if n.kind == "stmt" and cannot_raise(n.ast):
                        continue
                    if l == "excb":
                        if not sysx:
                            continue                   # KeyboardInterrupt at an arbitrary point: counted separately
                    st2 = state                        # exception: the statement's own effect did not happen
                    if bn is g.raise_:
                        kind = "base-exception" if l == "excb" else "exception"
                        for (rid, al) in st2:
                            self._leak(rid, kind, bn, n, path, reported, sysx if l == "excb" else None)
                        continue
                else:
                    st2 = post
                k = (b, st2)
                if k in seen:
                    continue
                seen.add(k)
                stack.append((b, st2, path + (n.lineno,) if n.lineno else path))
        return self.leaks

    def _leak(self, rid, kind, end_node, via, path, reported, sysx=None):
        key = (rid, kind, via.id if via is not None else end_node.id)
        if key in reported:
            return
        reported.add(key)
        desc = self.acq[rid][0]
        lk = Leak(self.g.nodes[rid], desc, kind, end_node, via, [p for p in path][-12:])
        lk.sysx = sysx
        self.leaks.append(lk)


def make_sysexit_reach(ctx, pr: PrunedReach, entry: Func = None):
    """Returns f(fn, call) -> call chain (list of qualnames) if the call can raise SystemExit that is not
    caught inside the callee frames, else None."""
    def catches_base(fn: Func, node: ast.AST) -> bool:
        p = getattr(node, "_parent", None)
        child = node
        while p is not None and p is not fn.node:
            if isinstance(p, ast.Try) and child in p.body:
                for h in p.handlers:
                    if h.type is None:
                        return True
                    names = [dotted(e) for e in (h.type.elts if isinstance(h.type, ast.Tuple) else [h.type])]
                    if any(nm in ("BaseException", "SystemExit") for nm in names):
                        return True
            child = p
            p = getattr(p, "_parent", None)
        return False

    state = {"built": False, "next": {}}

    def build():
        # functions in the universe that contain an uncaught exit call, then backwards closure
        universe = list(pr.reach(entry)) if entry is not None else list(ctx.repo.all_funcs())
        nxt = state["next"]
        edges = {}
        for fn in universe:
            for c in pr.live_calls(fn):
                s = sink_of(fn, c)
                if s and s[0] == "exit" and not catches_base(fn, c):
                    nxt[fn] = ("exit", f"{fn.qual} ({fn.loc(c)}: {norm(c)})")
                    break
            for (node, tgs) in pr.live_sites(fn):
                if catches_base(fn, node):
                    continue
                for t in tgs:
                    edges.setdefault(t, set()).add(fn)
        todo = sorted(nxt, key=lambda f: f.key)
        while todo:
            f = todo.pop(0)
            for caller in sorted(edges.get(f, ()), key=lambda x: x.key):
                if caller not in nxt:
                    nxt[caller] = ("call", f)
                    todo.append(caller)
        state["built"] = True

    def escapes(fn: Func):
        if not state["built"]:
            build()
        nxt = state["next"]
        if fn not in nxt:
            return None
        out = []
        cur = fn
        while True:
            kind, v = nxt[cur]
            if kind == "exit":
                out.append(v)
                return out
            out.append(cur.qual)
            cur = v

    def reach(fn: Func, call: ast.Call):
        s = sink_of(fn, call)
        if s and s[0] == "exit":
            return None            # handled as exit-call by the caller
        for t in sorted(ctx.cg.resolve_call(fn, call), key=lambda x: x.key):
            ch = escapes(t)
            if ch:
                return ch
        return None

    reach.escapes = escapes
    return reach
