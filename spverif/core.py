"""Driver plumbing: obligations, verdicts, known findings, evidence and violation files."""
from __future__ import annotations

import ast
import json
import os
import time
from typing import Optional

from .callgraph import CallGraph
from .dep import Dep
from .model import AnchorMissing, Func, Inconclusive, Repo, norm

VERIF_DIR = os.path.dirname(os.path.dirname(os.path.abspath(__file__)))
EVIDENCE_DIR = os.environ.get("SPVERIF_EVIDENCE_DIR") or os.path.join(VERIF_DIR, "evidence")
KNOWN_FILE = os.path.join(VERIF_DIR, "known_findings.json")

TRUSTED_BASE = ["CPython 3.12 ast/compile front end", "spverif engine (model, CFG, dominators, DEP, order tables)",
                "repository annotations used for receiver typing"]


class Ob:
    """One rule instance (obligation)."""

    def __init__(self, rule: str, instance: str, loc: str, holds: Optional[bool], detail: str = "",
                 witness=None, key: str = None, info: bool = False, nontrivial: bool = True):
        self.rule = rule
        self.instance = instance
        self.loc = loc
        self.holds = holds
        self.detail = detail
        self.witness = witness
        self.key = key or f"{rule}|{instance}"
        self.info = info
        self.nontrivial = nontrivial
        self.status = None    # holds / violation / known / info

    def to_json(self):
        d = {"rule": self.rule, "instance": self.instance, "loc": self.loc, "verdict": self.status,
             "detail": self.detail}
        if self.witness is not None:
            d["witness"] = self.witness
        if self.status in ("violation", "known"):
            d["key"] = self.key
        return d


class Ctx:
    """Everything a rule needs; shared lazily built analyses."""

    def __init__(self, prop: str, tier: str = "quick", repo: Repo = None):
        self.prop = prop
        self.tier = tier
        self.repo = repo or Repo()
        self._cg = None
        self._dep = None
        self.obs: list[Ob] = []
        self.floors: dict = {}
        self.counts: dict = {}
        self.notes: list = []
        self.stats: dict = {}

    @property
    def cg(self) -> CallGraph:
        if self._cg is None:
            self._cg = CallGraph(self.repo)
        return self._cg

    @property
    def dep(self) -> Dep:
        if self._dep is None:
            self._dep = Dep(self.repo, self.cg)
        return self._dep

    def ob(self, rule, instance, where, holds, detail="", witness=None, key=None, info=False, nontrivial=True):
        """where: 'file:line' string, or (Func, ast node|None)."""
        if isinstance(where, tuple):
            fn, node = where
            loc = fn.loc(node)
        elif isinstance(where, Func):
            loc = where.loc()
        else:
            loc = where
        o = Ob(rule, instance, loc, holds, detail, witness, key, info, nontrivial)
        self.obs.append(o)
        self.counts[rule] = self.counts.get(rule, 0) + 1
        return o

    def floor(self, rule: str, n: int):
        """The rule must have evaluated at least n instances (confirmed by hand when the rule
        was armed); fewer means an anchor moved and the rule would pass vacuously."""
        self.floors[rule] = n

    def note(self, s: str):
        self.notes.append(s)


def key_of(rule: str, fn: Func, node: ast.AST = None, extra: str = "") -> str:
    parts = [rule, fn.qual]
    if node is not None:
        parts.append(norm(node))
    if extra:
        parts.append(extra)
    return "|".join(parts)


def load_known() -> list:
    if not os.path.exists(KNOWN_FILE):
        return []
    with open(KNOWN_FILE) as f:
        return json.load(f).get("findings", [])


def run_property(prop: str, tier: str, rules_fn, meta: dict) -> int:
    """Evaluate all rules of one property, print verdict lines, write evidence, return exit code."""
    t0 = time.time()
    seed = int(os.environ.get("VERIF_SEED", "0") or 0)
    os.makedirs(EVIDENCE_DIR, exist_ok=True)
    ev_path = os.path.join(EVIDENCE_DIR, f"{prop}.json")
    ctx = None
    problem = None
    try:
        ctx = Ctx(prop, tier)
        # what the normal forms did to the parsed tree before any rule ran (0 / 0 on the tree the rules were written for)
        ctx.stats["normal_forms"] = {"helper_call_sites_inlined": getattr(ctx.repo, "inlined", 0), "field_aliases_resolved": getattr(ctx.repo, "aliases", 0)}
        rules_fn(ctx)
        if tier == "thorough" and not os.environ.get("SPVERIF_NESTED"):
            from .thorough import adequacy, engine_crosscheck
            engine_crosscheck(ctx)
            adequacy(ctx, prop)
        for rule, n in ctx.floors.items():
            got = ctx.counts.get(rule, 0)
            if got < n:
                raise AnchorMissing(f"rule {rule} matched {got} instance(s), floor is {n}: an anchor moved; "
                                    f"the rule would pass vacuously")
    except AnchorMissing as e:
        problem = f"ANALYSIS-ERROR property={prop} anchor: {e}"
    except Inconclusive as e:
        problem = f"INCONCLUSIVE property={prop} {e}"
    except Exception as e:  # internal error: never a verdict
        import traceback
        traceback.print_exc()
        print(f"ANALYSIS-ERROR property={prop} internal: {type(e).__name__}: {e}")
        return 2
    if problem is not None:
        # An incomplete analysis is not a verdict -- unless rule instances evaluated before the analysis stopped
        # already failed: those are reported (they are sound on their own), together with the note.
        known_open_keys = {k["key"] for k in load_known() if k.get("property") == prop and k.get("status") == "known"}
        early = [o for o in (ctx.obs if ctx is not None else []) if not o.info and o.holds is False and o.key not in known_open_keys]
        if not early:
            print(problem)
            return 2
        ctx.note(problem + " (analysis incomplete; the violations below were established before it stopped)")
        print(problem + " -- reporting the violations established before the analysis stopped")

    known = [k for k in load_known() if k.get("property") == prop]
    known_open = {k["key"]: k for k in known if k.get("status") == "known"}
    violations, known_hit = [], []
    for o in ctx.obs:
        if o.info:
            o.status = "info"
        elif o.holds:
            o.status = "holds"
        elif o.key in known_open:
            o.status = "known"
            known_hit.append(o)
        else:
            o.status = "violation"
            violations.append(o)

    vdir = os.path.join(EVIDENCE_DIR, "violations")
    lines = []
    for o in known_hit:
        k = known_open[o.key]
        lines.append(f"KNOWN-FINDING: property={prop} {k.get('id', '')} {o.rule} {o.loc} {k.get('what', o.detail)}")
    if violations:
        os.makedirs(vdir, exist_ok=True)
    for i, o in enumerate(violations):
        rec = {"property": prop, "tier": tier, **o.to_json(), "repo_digest": ctx.repo.hexdigest()}
        path = os.path.join(vdir, f"{prop}-{i}.json")
        with open(path, "w") as f:
            json.dump(rec, f, indent=1)
        lines.append(f"VIOLATION property={prop} replay={path}")
        lines.append(f"  rule={o.rule} at {o.loc} instance={o.instance}: {o.detail}")

    judged = [o for o in ctx.obs if not o.info]
    discharged = [o for o in judged if o.status == "holds"]
    nontriv_keys = {o.key for o in judged if o.nontrivial}
    per_rule = {}
    for o in ctx.obs:
        r = per_rule.setdefault(o.rule, {"instances": 0, "holds": 0, "violation": 0, "known": 0, "info": 0})
        r["instances"] += 1
        r[o.status] += 1
    samples = []
    seen_rules = set()
    for o in ctx.obs:      # one sample per rule first, then fill
        if o.rule not in seen_rules:
            seen_rules.add(o.rule)
            samples.append(o.to_json())
    for o in ctx.obs:
        if len(samples) >= 40:
            break
        j = o.to_json()
        if j not in samples:
            samples.append(j)
    evidence = {
        "property_id": prop,
        "tier": tier,
        "seed": seed,
        "level": meta["level"],
        "coverage": {
            "explanation": meta["explanation"],
            "obligations": len(judged),
            "discharged": len(discharged),
            "evaluations": len(ctx.obs),
            "distinct_nontrivial": len(nontriv_keys),
            "rule": meta.get("rule", "one obligation = one rule instance (a write, call site, branch, pair or table row) "
                             "enumerated from /repo's current source; non-trivial = the verdict rests on a structure "
                             "found by the engine (dominating guard, dataflow atom, order table, aligned pair), "
                             "distinct by (rule, function, normalised construct)"),
            "samples": samples,
            "rules": per_rule,
            "floors": ctx.floors,
            "known_findings_matched": [{"key": o.key, "loc": o.loc} for o in known_hit],
            "fixed_findings_on_file": [k.get("id") for k in known if k.get("status") == "fixed"],
            "functions_in_model": len(ctx.repo.funcs),
            "modules_in_model": len(ctx.repo.modules),
            "call_sites_resolved": ctx._cg.resolved if ctx._cg else 0,
            "call_sites_unresolved": ctx._cg.unresolved if ctx._cg else 0,
            "repo_digest": ctx.repo.hexdigest(),
            "checker_cmd": f"./check {prop} {tier}",
            "trusted_base": TRUSTED_BASE + meta.get("trusted_base", []),
            "notes": ctx.notes,
            "stats": ctx.stats,
            **({"programs": meta["programs"](ctx), "disagreements_checked": len(judged)} if "programs" in meta else {}),
        },
        "assumptions": meta.get("assumptions", []),
        "wall_s": round(time.time() - t0, 3),
        "violations": len(violations),
    }
    with open(ev_path, "w") as f:
        json.dump(evidence, f, indent=1, default=str)

    print(f"[{prop}/{tier}] {len(judged)} obligations, {len(discharged)} hold, {len(known_hit)} known finding(s), "
          f"{len(violations)} violation(s); rules: " +
          ", ".join(f"{r}={v['instances']}" for r, v in sorted(per_rule.items())) +
          f"; {evidence['wall_s']}s")
    for ln in lines:
        print(ln)
    return 1 if violations else 0
